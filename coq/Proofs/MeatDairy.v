(* C05 lemmas about Model/MeatDairy.v *)
From Coq Require Import QArith List String Bool Lqa Lia Arith.
From Allfed Require Import Base.StrUtil Model.MeatDairy.
From Allfed Require Base.QList Model.Helpers Proofs.Helpers.
Import ListNotations.
Open Scope Q_scope.
Local Arguments Qred : simpl never.

(* ------------------------------------------------------------------ small facts *)
Lemma Qred_eq x : Qred x == x.
Proof. apply Qred_correct. Qed.

Lemma Qle_bool_true x y : Qle_bool x y = true <-> x <= y.
Proof. apply Qle_bool_iff. Qed.

Lemma Qle_bool_false x y : Qle_bool x y = false -> y < x.
Proof.
  intro H. destruct (Qlt_le_dec y x) as [L|L]; auto.
  apply Qle_bool_iff in L. congruence.
Qed.

Lemma Qmax0_nonneg x : 0 <= Qmax0 x.
Proof.
  unfold Qmax0. destruct (Qle_bool 0 x) eqn:E.
  - apply Qle_bool_iff; exact E.
  - apply Qle_refl.
Qed.

Lemma Qmax0_ge x : x <= Qmax0 x.
Proof.
  unfold Qmax0. destruct (Qle_bool 0 x) eqn:E.
  - apply Qle_refl.
  - apply Qle_bool_false in E. lra.
Qed.

Lemma Qmax0_nonpos x : x <= 0 -> Qmax0 x == 0.
Proof.
  intro H. unfold Qmax0. destruct (Qle_bool 0 x) eqn:E.
  - apply Qle_bool_iff in E. lra.
  - reflexivity.
Qed.

Lemma Qmin'_le_r x y : Qmin' x y <= y.
Proof.
  unfold Qmin'. destruct (Qle_bool x y) eqn:E.
  - apply Qle_bool_iff; exact E.
  - apply Qle_refl.
Qed.

Lemma Qmin'_le_l x y : Qmin' x y <= x.
Proof.
  unfold Qmin'. destruct (Qle_bool x y) eqn:E.
  - apply Qle_refl.
  - apply Qle_bool_false in E. lra.
Qed.

(* ------------------------------------------------------------------ sums and running totals *)
Lemma qsum_cons x l : qsum (x :: l) == x + qsum l.
Proof. unfold qsum; simpl. apply Qred_eq. Qed.

(* sum of the first k elements *)
Fixpoint sum_first (k : nat) (l : list Q) : Q :=
  match k, l with
  | O, _ => 0
  | _, [] => 0
  | S k', x :: t => x + sum_first k' t
  end.

Lemma sum_first_all l : sum_first (List.length l) l == qsum l.
Proof. induction l; cbn [sum_first List.length]. reflexivity. rewrite qsum_cons, IHl. reflexivity. Qed.

Lemma running_from_length acc l : List.length (running_from acc l) = List.length l.
Proof. revert acc; induction l; intros; simpl; auto. Qed.

Lemma running_from_nth l : forall acc acc' m, acc == acc' -> (m < List.length l)%nat ->
  nth m (running_from acc l) 0 == acc' + sum_first (S m) l.
Proof.
  induction l as [|x t IH]; intros acc acc' m He Hm; simpl in Hm. lia.
  destruct m as [|m].
  - simpl. rewrite Qred_eq, He. destruct t; lra.
  - cbn [running_from nth]. rewrite (IH (Qred (acc + x)) (acc' + x) m).
    + cbn [sum_first]. lra.
    + rewrite Qred_eq, He. reflexivity.
    + lia.
Qed.

Lemma running_nth l m : (m < List.length l)%nat -> nth m (running l) 0 == sum_first (S m) l.
Proof. intro H. unfold running. rewrite (running_from_nth l 0 0 m); [lra|reflexivity|exact H]. Qed.

Lemma running_last l : (0 < List.length l)%nat -> nth (List.length l - 1) (running l) 0 == qsum l.
Proof.
  intro H. rewrite running_nth by lia.
  replace (S (List.length l - 1)) with (List.length l) by lia. apply sum_first_all.
Qed.

Lemma sum_first_ext : forall k l l', List.length l = List.length l' ->
  (forall i, (i < k)%nat -> nth i l 0 == nth i l' 0) -> sum_first k l == sum_first k l'.
Proof.
  induction k; intros l l' HL H; simpl. reflexivity.
  destruct l as [|x t], l' as [|y u]; simpl in HL; try discriminate; try reflexivity.
  rewrite (H 0%nat) by lia. simpl.
  rewrite (IHk t u); [reflexivity|lia|].
  intros i Hi. apply (H (S i)). lia.
Qed.

(* sums over index ranges *)
Lemma qsum_map_ext {A} (f g : A -> Q) l : (forall x, In x l -> f x == g x) -> qsum (map f l) == qsum (map g l).
Proof.
  induction l; intro H; cbn [map]. reflexivity.
  rewrite !qsum_cons, IHl, (H a). reflexivity. left; auto. intros; apply H; right; auto.
Qed.

Lemma qsum_map_plus {A} (f g : A -> Q) l : qsum (map (fun x => f x + g x) l) == qsum (map f l) + qsum (map g l).
Proof. induction l; cbn [map]. unfold qsum; cbn [fold_right]; ring. rewrite !qsum_cons, IHl. ring. Qed.

Lemma qsum_map_scale {A} (f : A -> Q) k l : qsum (map (fun x => f x * k) l) == qsum (map f l) * k.
Proof. induction l; cbn [map]. unfold qsum; cbn [fold_right]; ring. rewrite !qsum_cons, IHl. ring. Qed.

Lemma qsum_nth_seq l : forall s, qsum (map (fun i => nth (i - s) l 0) (seq s (List.length l))) == qsum l.
Proof.
  induction l as [|x t IH]; intro s; cbn [List.length seq map]. reflexivity.
  rewrite !qsum_cons. replace (s - s)%nat with 0%nat by lia. cbn [nth].
  rewrite <- (IH (S s)). apply Qplus_comp. reflexivity.
  apply qsum_map_ext. intros i Hi. apply in_seq in Hi.
  replace (i - s)%nat with (S (i - S s)) by lia. reflexivity.
Qed.

Lemma qsum_nth_seq0 l n : List.length l = n -> qsum (map (fun i => nth i l 0) (seq 0 n)) == qsum l.
Proof.
  intros <-. rewrite <- (qsum_nth_seq l 0). apply qsum_map_ext. intros i _. replace (i - 0)%nat with i by lia. reflexivity.
Qed.

(* ------------------------------------------------------------------ vadd, class series *)
Lemma vadd_length a b : List.length a = List.length b -> List.length (vadd a b) = List.length a.
Proof. intro H. unfold vadd. rewrite map_length, combine_length. lia. Qed.

Lemma vadd_nth : forall a b i, List.length a = List.length b -> nth i (vadd a b) 0 == nth i a 0 + nth i b 0.
Proof.
  induction a as [|x a IH]; intros [|y b] i H; simpl in H; try discriminate.
  - destruct i; simpl; lra.
  - destruct i; simpl. apply Qred_eq. apply IH. lia.
Qed.

Lemma zeros_length n : List.length (zeros n) = n.
Proof. apply repeat_length. Qed.

Lemma zeros_nth n i : nth i (zeros n) 0 = 0.
Proof. unfold zeros. revert i; induction n; intros [|i]; simpl; auto. Qed.

(* which class an animal's slaughter list goes to: the if-chain of get_meat_produced *)
Definition is_chicken (a : animal) : bool := String.eqb (a_type a) "chicken".
Definition is_pig (a : animal) : bool := negb (is_chicken a) && String.eqb (a_type a) "pig".
Definition is_small (a : animal) : bool := negb (is_chicken a) && negb (is_pig a) && String.eqb (a_size a) "small".
Definition is_medium (a : animal) : bool := negb (is_chicken a) && negb (is_pig a) && String.eqb (a_size a) "medium".
Definition is_large (a : animal) : bool := negb (is_chicken a) && negb (is_pig a) && String.eqb (a_size a) "large".

(* sum over the animals selected by f of month i of the list sel *)
Fixpoint sumby (sel : animal -> list Q) (f : animal -> bool) (herd : list animal) (i : nat) : Q :=
  match herd with
  | [] => 0
  | a :: t => (if f a then nth i (sel a) 0 else 0) + sumby sel f t i
  end.

Definition count (f : animal -> bool) (herd : list animal) : nat := List.length (filter f herd).

(* every monthly list of the herd has length n *)
Definition wf (n : nat) (herd : list animal) : Prop :=
  Forall (fun a => List.length (a_slaughter a) = n /\ List.length (a_population a) = n) herd.

Definition wfc (n : nat) (c : classes) : Prop :=
  List.length (chickens c) = n /\ List.length (pigs c) = n /\ List.length (small_nc c) = n /\
  List.length (medium_np c) = n /\ List.length (large c) = n.

Lemma class_step_cases c a :
  class_step c a =
  if is_chicken a then
    {| chickens := a_slaughter a; pigs := pigs c; small_nc := small_nc c; medium_np := medium_np c; large := large c |}
  else if is_pig a then
    {| chickens := chickens c; pigs := a_slaughter a; small_nc := small_nc c; medium_np := medium_np c; large := large c |}
  else if is_small a then
    {| chickens := chickens c; pigs := pigs c; small_nc := vadd (small_nc c) (a_slaughter a);
       medium_np := medium_np c; large := large c |}
  else if is_medium a then
    {| chickens := chickens c; pigs := pigs c; small_nc := small_nc c;
       medium_np := vadd (medium_np c) (a_slaughter a); large := large c |}
  else if is_large a then
    {| chickens := chickens c; pigs := pigs c; small_nc := small_nc c; medium_np := medium_np c;
       large := vadd (large c) (a_slaughter a) |}
  else c.
Proof.
  unfold class_step, is_small, is_medium, is_large, is_pig, is_chicken.
  destruct (String.eqb (a_type a) "chicken") eqn:E1; simpl. reflexivity.
  destruct (String.eqb (a_type a) "pig") eqn:E2; simpl. reflexivity.
  destruct (String.eqb (a_size a) "small") eqn:E3; simpl. reflexivity.
  destruct (String.eqb (a_size a) "medium") eqn:E4; simpl. reflexivity.
  reflexivity.
Qed.

Lemma class_step_wfc n c a : wfc n c -> List.length (a_slaughter a) = n -> wfc n (class_step c a).
Proof.
  intros (H1 & H2 & H3 & H4 & H5) Ha. rewrite class_step_cases.
  destruct (is_chicken a); [repeat split; simpl; auto|].
  destruct (is_pig a); [repeat split; simpl; auto|].
  destruct (is_small a); [repeat split; simpl; auto; rewrite vadd_length; lia|].
  destruct (is_medium a); [repeat split; simpl; auto; rewrite vadd_length; lia|].
  destruct (is_large a); [repeat split; simpl; auto; rewrite vadd_length; lia|].
  repeat split; auto.
Qed.

(* the additive classes: value after the fold = value before + the selected animals *)
Lemma fold_classes_add n herd : forall c, wfc n c -> wf n herd -> forall i,
  let r := fold_left class_step herd c in
  wfc n r /\
  nth i (small_nc r) 0 == nth i (small_nc c) 0 + sumby a_slaughter is_small herd i /\
  nth i (medium_np r) 0 == nth i (medium_np c) 0 + sumby a_slaughter is_medium herd i /\
  nth i (large r) 0 == nth i (large c) 0 + sumby a_slaughter is_large herd i.
Proof.
  induction herd as [|a t IH]; intros c Hc Hw i; simpl.
  - repeat split; try apply Hc; lra.
  - destruct (Forall_inv Hw) as [Ha _]. pose proof (Forall_inv_tail Hw) as Ht.
    assert (Hc' := class_step_wfc n c a Hc Ha).
    destruct (IH (class_step c a) Hc' Ht i) as (W & S1 & S2 & S3).
    split; [exact W|].
    rewrite S1, S2, S3. clear S1 S2 S3 W IH.
    destruct Hc as (H1 & H2 & H3 & H4 & H5).
    rewrite class_step_cases.
    unfold is_small, is_medium, is_large.
    destruct (is_chicken a); simpl; [repeat split; lra|].
    destruct (is_pig a); simpl; [repeat split; lra|].
    destruct (String.eqb (a_size a) "small") eqn:E3.
    { apply String.eqb_eq in E3. rewrite E3. simpl. rewrite vadd_nth by lia. repeat split; lra. }
    destruct (String.eqb (a_size a) "medium") eqn:E4.
    { apply String.eqb_eq in E4. rewrite E4. simpl. rewrite vadd_nth by lia. repeat split; lra. }
    destruct (String.eqb (a_size a) "large") eqn:E5; simpl.
    { rewrite vadd_nth by lia. repeat split; lra. }
    repeat split; lra.
Qed.

(* the two ASSIGNED classes: with at most one chicken / pig entry the result is the sum as well *)
Lemma class_step_chickens c a :
  chickens (class_step c a) = if is_chicken a then a_slaughter a else chickens c.
Proof.
  rewrite class_step_cases.
  destruct (is_chicken a), (is_pig a), (is_small a), (is_medium a), (is_large a); reflexivity.
Qed.

Lemma class_step_pigs c a :
  pigs (class_step c a) = if is_chicken a then pigs c else if is_pig a then a_slaughter a else pigs c.
Proof.
  rewrite class_step_cases.
  destruct (is_chicken a), (is_pig a), (is_small a), (is_medium a), (is_large a); reflexivity.
Qed.

Lemma sumby_none sel f herd i : (List.length (filter f herd) = 0)%nat -> sumby sel f herd i == 0.
Proof.
  induction herd as [|b t IH]; simpl; intro H. reflexivity.
  destruct (f b); simpl in H. lia. rewrite IH by exact H. lra.
Qed.

Lemma is_pig_not_chicken a : is_chicken a = true -> is_pig a = false.
Proof. unfold is_pig. intros ->. reflexivity. Qed.

Lemma fold_classes_assign herd : forall c i,
  let r := fold_left class_step herd c in
  ((count is_chicken herd = 0)%nat -> chickens r = chickens c) /\
  ((count is_chicken herd = 1)%nat -> nth i (chickens r) 0 == sumby a_slaughter is_chicken herd i) /\
  ((count is_pig herd = 0)%nat -> pigs r = pigs c) /\
  ((count is_pig herd = 1)%nat -> nth i (pigs r) 0 == sumby a_slaughter is_pig herd i).
Proof.
  induction herd as [|a t IH]; intros c i; cbn [fold_left].
  - unfold count; simpl. repeat split; auto; intros; lia.
  - destruct (IH (class_step c a) i) as (C0 & C1 & P0 & P1). clear IH.
    rewrite class_step_chickens in C0. rewrite class_step_pigs in P0.
    unfold count in *. cbn [filter sumby].
    destruct (is_chicken a) eqn:Ec.
    + rewrite (is_pig_not_chicken a Ec). cbn [List.length].
      repeat split; intro H; try lia.
      * assert (H0 : (List.length (filter is_chicken t) = 0)%nat) by lia.
        rewrite (C0 H0). rewrite (sumby_none _ _ _ _ H0). lra.
      * apply P0; exact H.
      * rewrite (P1 H). lra.
    + destruct (is_pig a) eqn:Ep; cbn [List.length].
      * repeat split; intro H; try lia.
        -- apply C0; exact H.
        -- rewrite (C1 H). lra.
        -- assert (H0 : (List.length (filter is_pig t) = 0)%nat) by lia.
           rewrite (P0 H0). rewrite (sumby_none _ _ _ _ H0). lra.
      * repeat split; intro H.
        -- apply C0; exact H.
        -- rewrite (C1 H). lra.
        -- apply P0; exact H.
        -- rewrite (P1 H). lra.
Qed.

Definition at_most_one (f : animal -> bool) (herd : list animal) : Prop := (count f herd <= 1)%nat.

(* the five class series, month i, as sums over the herd *)
Lemma get_meat_produced_spec n herd i : wf n herd -> at_most_one is_chicken herd -> at_most_one is_pig herd ->
  let c := get_meat_produced herd in
  wfc (List.length (a_slaughter (hd no_animal herd))) c /\
  (herd <> [] -> wfc n c) /\
  nth i (chickens c) 0 == sumby a_slaughter is_chicken herd i /\
  nth i (pigs c) 0 == sumby a_slaughter is_pig herd i /\
  nth i (small_nc c) 0 == sumby a_slaughter is_small herd i /\
  nth i (medium_np c) 0 == sumby a_slaughter is_medium herd i /\
  nth i (large c) 0 == sumby a_slaughter is_large herd i.
Proof.
  intros Hw Hc Hp. unfold get_meat_produced.
  set (n0 := List.length (a_slaughter (hd no_animal herd))).
  set (c0 := {| chickens := zeros n0; pigs := zeros n0; small_nc := zeros n0; medium_np := zeros n0; large := zeros n0 |}).
  assert (W0 : wfc n0 c0) by (unfold wfc, c0; simpl; rewrite !zeros_length; auto).
  assert (Hw0 : wf n0 herd).
  { destruct herd as [|a t]. constructor. destruct (Forall_inv Hw) as [Ha _]. subst n0; simpl. rewrite Ha. exact Hw. }
  destruct (fold_classes_add n0 herd c0 W0 Hw0 i) as (W & S1 & S2 & S3).
  destruct (fold_classes_assign herd c0 i) as (C0 & C1 & P0 & P1).
  cbv zeta in *.
  split; [exact W|]. split.
  { intro Hne. destruct herd as [|a t]. congruence. destruct (Forall_inv Hw) as [Ha _].
    subst n0; simpl in *. rewrite Ha in W. exact W. }
  split; [|split]; [| |].
  - unfold at_most_one in Hc. destruct (count is_chicken herd) as [|[|k]] eqn:E; try lia.
    + rewrite (C0 eq_refl). unfold c0; simpl. rewrite zeros_nth, (sumby_none _ _ _ _ E). reflexivity.
    + apply C1; reflexivity.
  - unfold at_most_one in Hp. destruct (count is_pig herd) as [|[|k]] eqn:E; try lia.
    + rewrite (P0 eq_refl). unfold c0; simpl. rewrite zeros_nth, (sumby_none _ _ _ _ E). reflexivity.
    + apply P1; reflexivity.
  - assert (Z1 : nth i (small_nc c0) 0 = 0) by apply zeros_nth.
    assert (Z2 : nth i (medium_np c0) 0 = 0) by apply zeros_nth.
    assert (Z3 : nth i (large c0) 0 = 0) by apply zeros_nth.
    rewrite Z1 in S1; rewrite Z2 in S2; rewrite Z3 in S3.
    repeat split; [rewrite S1|rewrite S2|rewrite S3]; lra.
Qed.

(* per-head yield of an animal: chicken, pig, then by size; nothing for an unknown size *)
Definition head_kcal (y : yields) (a : animal) : Q :=
  if is_chicken a then KPC y else if is_pig a then KPP y else if is_small a then KPS y
  else if is_medium a then KPM y else if is_large a then KPL y else 0.

Fixpoint herd_energy (y : yields) (herd : list animal) (i : nat) : Q :=
  match herd with
  | [] => 0
  | a :: t => nth i (a_slaughter a) 0 * head_kcal y a + herd_energy y t i
  end.

Lemma herd_energy_classes y herd i :
  herd_energy y herd i ==
  sumby a_slaughter is_chicken herd i * KPC y + sumby a_slaughter is_pig herd i * KPP y +
  sumby a_slaughter is_small herd i * KPS y + sumby a_slaughter is_medium herd i * KPM y +
  sumby a_slaughter is_large herd i * KPL y.
Proof.
  induction herd as [|a t IH]; simpl. ring.
  rewrite IH. unfold head_kcal, is_small, is_medium, is_large, is_pig.
  destruct (is_chicken a); simpl; [ring|].
  destruct (String.eqb (a_type a) "pig"); simpl; [ring|].
  destruct (String.eqb (a_size a) "small") eqn:E1.
  { apply String.eqb_eq in E1. rewrite E1. simpl. ring. }
  destruct (String.eqb (a_size a) "medium") eqn:E2.
  { apply String.eqb_eq in E2. rewrite E2. simpl. ring. }
  destruct (String.eqb (a_size a) "large") eqn:E3; simpl; ring.
Qed.

Lemma each_month_meat_length y d c : List.length (each_month_meat y d c) = List.length (small_nc c).
Proof. unfold each_month_meat. rewrite map_length, seq_length. reflexivity. Qed.

Lemma each_month_meat_nth y d c i : (i < List.length (small_nc c))%nat ->
  nth i (each_month_meat y d c) 0 ==
  (nth i (chickens c) 0 * KPC y + nth i (pigs c) 0 * KPP y + nth i (small_nc c) 0 * KPS y +
   nth i (medium_np c) 0 * KPM y + nth i (large c) 0 * KPL y) * (1 - d / 100).
Proof.
  intro H. unfold each_month_meat.
  set (f := fun i0 => meat_after_distribution_waste y d (nth i0 (chickens c) 0) (nth i0 (pigs c) 0)
                        (nth i0 (small_nc c) 0) (nth i0 (medium_np c) 0) (nth i0 (large c) 0)).
  assert (E : nth i (map f (seq 0 (List.length (small_nc c)))) 0 = f (nth i (seq 0 (List.length (small_nc c))) 0%nat)).
  { rewrite <- (map_nth f). apply nth_indep. rewrite map_length, seq_length. exact H. }
  rewrite E, seq_nth by exact H. simpl. unfold f, meat_after_distribution_waste. apply Qred_eq.
Qed.

(* MAIN: monthly meat = sum over the herd of heads x per-head yield, less distribution waste *)
Lemma meat_monthly n y d herd i : herd <> [] -> wf n herd -> at_most_one is_chicken herd -> at_most_one is_pig herd ->
  (i < n)%nat ->
  nth i (mo_monthly (meat_from_herd y d herd)) 0 == herd_energy y herd i * (1 - d / 100).
Proof.
  intros Hne Hw Hc Hp Hi. unfold meat_from_herd; simpl.
  destruct (get_meat_produced_spec n herd i Hw Hc Hp) as (_ & W & S1 & S2 & S3 & S4 & S5).
  destruct (W Hne) as (_ & _ & L3 & _).
  rewrite each_month_meat_nth by lia.
  rewrite S1, S2, S3, S4, S5, herd_energy_classes. reflexivity.
Qed.

Lemma meat_monthly_length n y d herd : herd <> [] -> wf n herd -> at_most_one is_chicken herd -> at_most_one is_pig herd ->
  List.length (mo_monthly (meat_from_herd y d herd)) = n.
Proof.
  intros Hne Hw Hc Hp. unfold meat_from_herd; simpl. rewrite each_month_meat_length.
  destruct (get_meat_produced_spec n herd 0 Hw Hc Hp) as (_ & W & _).
  destruct (W Hne) as (_ & _ & L3 & _). exact L3.
Qed.

(* total = sum of the months (linearity) for ANY five series of a common length *)
Lemma meat_summed_is_sum y d c n : wfc n c -> qsum (each_month_meat y d c) == meat_summed y d c.
Proof.
  intros (H1 & H2 & H3 & H4 & H5). unfold each_month_meat, meat_summed, meat_after_distribution_waste.
  rewrite Qred_eq, H3.
  rewrite (qsum_map_ext _ (fun i => (nth i (chickens c) 0 * KPC y + nth i (pigs c) 0 * KPP y + nth i (small_nc c) 0 * KPS y +
                                     nth i (medium_np c) 0 * KPM y + nth i (large c) 0 * KPL y) * (1 - d / 100))).
  2:{ intros i _. apply Qred_eq. }
  rewrite qsum_map_scale.
  rewrite !qsum_map_plus, !qsum_map_scale.
  rewrite !qsum_nth_seq0 by assumption. reflexivity.
Qed.

Lemma meat_summed_spec n y d herd : herd <> [] -> wf n herd -> at_most_one is_chicken herd -> at_most_one is_pig herd ->
  mo_summed (meat_from_herd y d herd) == qsum (mo_monthly (meat_from_herd y d herd)).
Proof.
  intros Hne Hw Hc Hp. unfold meat_from_herd; simpl.
  destruct (get_meat_produced_spec n herd 0 Hw Hc Hp) as (_ & W & _).
  symmetry. apply (meat_summed_is_sum y d _ n). exact (W Hne).
Qed.

(* ------------------------------------------------------------------ milk *)
Lemma fold_dairy n herd : forall acc, List.length acc = n -> wf n herd -> forall i,
  let r := fold_left dairy_step herd acc in
  List.length r = n /\ nth i r 0 == nth i acc 0 + sumby a_population milk_bearing herd i.
Proof.
  induction herd as [|a t IH]; intros acc Ha Hw i; simpl.
  - split. exact Ha. lra.
  - destruct (Forall_inv Hw) as [_ Hp]. pose proof (Forall_inv_tail Hw) as Ht.
    unfold dairy_step at 2 4. destruct (milk_bearing a).
    + destruct (IH (vadd acc (a_population a)) (eq_trans (vadd_length _ _ (eq_trans Ha (eq_sym Hp))) Ha) Ht i) as (L & S).
      split. exact L. rewrite S, vadd_nth by lia. lra.
    + destruct (IH acc Ha Ht i) as (L & S). split. exact L. rewrite S. lra.
Qed.

Lemma dairy_population_spec n herd i : herd <> [] -> wf n herd ->
  List.length (dairy_population herd) = n /\
  nth i (dairy_population herd) 0 == sumby a_population milk_bearing herd i.
Proof.
  intros Hne Hw. unfold dairy_population.
  assert (L0 : List.length (zeros (List.length (a_population (hd no_animal herd)))) = n).
  { rewrite zeros_length. destruct herd as [|a t]. congruence. destruct (Forall_inv Hw) as [_ Hp]. exact Hp. }
  destruct (fold_dairy n herd _ L0 Hw i) as (L & S). split. exact L.
  rewrite S, zeros_nth. lra.
Qed.

Lemma milk_nth add y d r herd i : (i < List.length (dairy_population herd))%nat ->
  nth i (milk_kcals add y d r herd) 0 ==
  if add then nth i (dairy_population herd) 0 * y / 12 / 1000 * 1000 * MILK_KCALS / E9 * (1 - d / 100) * (1 - r / 100)
  else 0.
Proof.
  intro H. unfold milk_kcals.
  set (f := fun p => if add then milk_postwaste d r (monthly_milk_tons y p) else 0).
  assert (E : nth i (map f (dairy_population herd)) 0 = f (nth i (dairy_population herd) 0)).
  { rewrite <- (map_nth f). apply nth_indep. rewrite map_length. exact H. }
  rewrite E. unfold f. destruct add; [|reflexivity].
  unfold milk_postwaste, monthly_milk_tons. apply Qred_eq.
Qed.

(* ------------------------------------------------------------------ feed and grass eaten *)
Lemma feed_species_bounds eg ef req rum grass feed :
  0 < eg -> 0 < ef -> 0 <= grass -> 0 <= feed ->
  let r := feed_species eg ef req rum grass feed in
  0 <= fst r /\ 0 <= snd r /\ (0 <= req -> fst r <= grass /\ snd r <= feed) /\ (feed == 0 -> snd r == 0).
Proof.
  intros Heg Hef Hg Hf. unfold feed_species.
  destruct (Qeq_bool req 0) eqn:E0; cbn [fst snd].
  { split; [lra|]. split; [lra|]. split; [intros; split; lra|intro Hz; exact Hz]. }
  set (neg := if rum then grass * eg else 0).
  assert (Hneg : 0 <= neg).
  { unfold neg. destruct rum; [nra|lra]. }
  destruct (Qle_bool req neg) eqn:E1; cbn [fst snd].
  { apply Qle_bool_iff in E1.
    assert (D : req / eg <= grass).
    { unfold neg in E1. destruct rum.
      - apply Qle_shift_div_r; lra.
      - assert (req / eg <= 0). { apply Qle_shift_div_r. lra. lra. } lra. }
    split; [lra|]. split; [lra|]. split.
    - intro Hr. assert (0 <= req / eg) by (apply Qle_shift_div_l; lra). split; lra.
    - intro Hz; exact Hz. }
  apply Qle_bool_false in E1.
  destruct (Qle_bool neg 0) eqn:E2; cbn [negb fst snd].
  - (* no grass energy *)
    apply Qle_bool_iff in E2.
    destruct (Qle_bool req (feed * ef)) eqn:E3; cbn [fst snd].
    + apply Qle_bool_iff in E3.
      assert (D : req / ef <= feed) by (apply Qle_shift_div_r; lra).
      assert (P : 0 <= req / ef) by (apply Qle_shift_div_l; lra).
      split; [lra|]. split; [lra|]. split.
      * intro Hr. split; lra.
      * intro Hz. rewrite Hz in E3. lra.
    + split; [lra|]. split; [lra|]. split.
      * intro Hr. split; lra.
      * intro Hz; reflexivity.
  - apply Qle_bool_false in E2.
    destruct (Qle_bool (req - neg) (feed * ef)) eqn:E3; cbn [fst snd].
    + apply Qle_bool_iff in E3.
      assert (D : (req - neg) / ef <= feed) by (apply Qle_shift_div_r; lra).
      assert (P : 0 <= (req - neg) / ef) by (apply Qle_shift_div_l; lra).
      split; [lra|]. split; [lra|]. split.
      * intro Hr. split; lra.
      * intro Hz. rewrite Hz in E3. lra.
    + split; [lra|]. split; [lra|]. split.
      * intro Hr. split; lra.
      * intro Hz; reflexivity.
Qed.

Definition eaters_ok (es : list eater) : Prop := Forall (fun e => 0 < e_eg e /\ 0 < e_ef e) es.
Definition reqs_nonneg (es : list eater) : Prop := Forall (fun e => 0 <= e_req e) es.

Lemma feed_animals_bounds es : forall grass feed, eaters_ok es -> 0 <= grass -> 0 <= feed ->
  let r := feed_animals es grass feed in
  0 <= fst r /\ 0 <= snd r /\ (reqs_nonneg es -> fst r <= grass /\ snd r <= feed) /\ (feed == 0 -> snd r == 0).
Proof.
  unfold feed_animals.
  induction es as [|e t IH]; intros grass feed Hok Hg Hf; simpl.
  - split; [lra|]. split; [lra|]. split; [intros; split; lra|intro Hz; exact Hz].
  - destruct (Forall_inv Hok) as [Heg Hef]. pose proof (Forall_inv_tail Hok) as Hok'.
    destruct (feed_species_bounds (e_eg e) (e_ef e) (e_req e) (e_ruminant e) grass feed Heg Hef Hg Hf)
      as (A & B & C & D).
    destruct (feed_species (e_eg e) (e_ef e) (e_req e) (e_ruminant e) grass feed) as [g1 f1] eqn:E. simpl in *.
    destruct (IH g1 f1 Hok' A B) as (A' & B' & C' & D').
    split; [exact A'|]. split; [exact B'|]. split.
    + intro H. pose proof (Forall_inv H) as Hr. pose proof (Forall_inv_tail H) as Hrt.
      destruct (C Hr). destruct (C' Hrt). split; lra.
    + intro Hz. apply D'. apply D. exact Hz.
Qed.

Lemma used_le_available es grass feed : eaters_ok es -> 0 <= grass -> 0 <= feed ->
  month_grass_used es grass feed <= grass /\ month_feed_used es grass feed <= feed.
Proof.
  intros Hok Hg Hf. unfold month_grass_used, month_feed_used.
  destruct (feed_animals_bounds es grass feed Hok Hg Hf) as (A & B & _). lra.
Qed.

Lemma used_nonneg es grass feed : eaters_ok es -> reqs_nonneg es -> 0 <= grass -> 0 <= feed ->
  0 <= month_grass_used es grass feed /\ 0 <= month_feed_used es grass feed.
Proof.
  intros Hok Hr Hg Hf. unfold month_grass_used, month_feed_used.
  destruct (feed_animals_bounds es grass feed Hok Hg Hf) as (_ & _ & C & _). destruct (C Hr). lra.
Qed.

Lemma no_feed_none_eaten es grass : eaters_ok es -> 0 <= grass -> month_feed_used es grass 0 == 0.
Proof.
  intros Hok Hg. unfold month_feed_used.
  destruct (feed_animals_bounds es grass 0 Hok Hg (Qle_refl 0)) as (_ & _ & _ & D).
  rewrite D by reflexivity. lra.
Qed.

(* ------------------------------------------------------------------ the charge of the final round *)
(* the top-up is Model/Helpers.bump1 (C18), by computation; its properties are taken from Proofs/Helpers.v *)
Lemma increase_month_bump1 b f i mb mf tc : increase_month b f i mb mf tc = Allfed.Model.Helpers.bump1 b f i mb mf tc.
Proof.
  unfold increase_month, Allfed.Model.Helpers.bump1, Allfed.Base.QList.npmin, Allfed.Base.QList.npmax, Qmin', Qmax0,
         Allfed.Model.Helpers.regulariser. cbv zeta. reflexivity.
Qed.

Lemma increase_month_feed_ge b f i mb mf tc : f <= snd (increase_month b f i mb mf tc).
Proof. rewrite increase_month_bump1. apply Allfed.Proofs.Helpers.bump1_never_lowers. Qed.

Lemma increase_month_biofuel_ge b f i mb mf tc : b <= fst (increase_month b f i mb mf tc).
Proof. rewrite increase_month_bump1. apply Allfed.Proofs.Helpers.bump1_never_lowers. Qed.

Lemma charge_ge_eaten r1 eaten b : eaten <= charge_month r1 eaten b.
Proof. unfold charge_month. destruct r1. apply increase_month_feed_ge. apply Qle_refl. Qed.

(* no increase requested and nothing eaten: nothing charged, whatever the ceilings *)
Lemma increase_month_zero b mb mf tc : snd (increase_month b 0 0 mb mf tc) == 0.
Proof. rewrite increase_month_bump1. apply Allfed.Proofs.Helpers.bump1_no_request; reflexivity. Qed.

Lemma increase_of_same k const meat : 0 < k -> 0 <= const -> increase_of k const meat meat == 0.
Proof.
  intros Hk Hc. unfold increase_of.
  assert (H : (meat - meat) / 2 * k - const <= 0).
  { assert ((meat - meat) / 2 * k == 0) by (field). lra. }
  rewrite (Qmax0_nonpos _ H). field. lra.
Qed.

Lemma charge_month_proper r1 e e' b : e == e' ->
  b_increase b == 0 -> e' == 0 -> charge_month r1 e b == 0.
Proof.
  intros He Hi Hz. unfold charge_month. destruct r1; [|lra].
  rewrite increase_month_bump1. apply Allfed.Proofs.Helpers.bump1_no_request; [lra|exact Hi].
Qed.

(* ------------------------------------------------------------------ decision tree *)
Lemma round3_source_new t : round3_source t = NewRound3 <->
  any_resource t = true /\ demand_zero t = false /\ round2_aborts t = false.
Proof.
  unfold round3_source, round2_consts_present, round1_run.
  destruct (any_resource t), (demand_zero t), (round2_aborts t); simpl; split; intros; try discriminate;
    try (repeat split; reflexivity); try (destruct H as (A & B & C); discriminate); auto.
Qed.

Lemma skip_branch_zero_feed t n f2 i : round2_consts_present t = false -> nth i (herd_feed_round3 t n f2) 0 = 0.
Proof.
  intro H. unfold herd_feed_round3, round3_source. rewrite H. apply zeros_nth.
Qed.

Lemma round3_available_nth f2 i : nth i (round3_available f2) 0 == nth i f2 0 * SHAVE.
Proof.
  unfold round3_available. revert i. induction f2; intros [|i]; simpl; try (unfold SHAVE; lra). apply IHf2.
Qed.
