(* C05 lemmas (filled in below) *)
From Coq Require Import QArith List String Bool Lqa Lia.
From Allfed Require Import Base.StrUtil Model.MeatDairy.
Import ListNotations.
Open Scope Q_scope.

Lemma running_from_length acc l : List.length (running_from acc l) = List.length l.
Proof. revert acc; induction l; intros; simpl; auto. Qed.
