From Coq Require Import QArith List Arith Lia Lqa String Bool.
From Allfed Require Import Gen.Shutoff Model.LP Model.Rounds Proofs.LPChar.
Import ListNotations.
Open Scope Q_scope.

(* ---------- demand schedule ---------- *)
Lemma demand_length x d n : (d <= n)%nat -> List.length (demand x d n) = n.
Proof. intros H. unfold demand. rewrite app_length, !repeat_length. lia. Qed.

Lemma nth_repeat_Q (x : Q) k m : nth m (repeat x k) 0 = if Nat.ltb m k then x else 0.
Proof.
  revert m; induction k as [|k IH]; intros m; cbn [repeat].
  - destruct m; reflexivity.
  - destruct m; cbn [nth]; [reflexivity|]. rewrite IH.
    change (Nat.ltb (S m) (S k)) with (Nat.ltb m k). reflexivity.
Qed.

Lemma demand_before x d n m : (m < d)%nat -> nth m (demand x d n) 0 = x.
Proof.
  intros H. unfold demand. rewrite app_nth1 by (rewrite repeat_length; exact H).
  rewrite nth_repeat_Q. destruct (Nat.ltb_spec m d); [reflexivity | lia].
Qed.

Lemma demand_after x d n m : (d <= m)%nat -> nth m (demand x d n) 0 = 0.
Proof.
  intros H. unfold demand. rewrite app_nth2 by (rewrite repeat_length; exact H).
  rewrite repeat_length, nth_repeat_Q. destruct (Nat.ltb (m - d) (n - d)); reflexivity.
Qed.

Lemma demand_nonneg x d n m : 0 <= x -> 0 <= nth m (demand x d n) 0.
Proof.
  intros Hx. destruct (Nat.lt_ge_cases m d) as [H|H].
  - rewrite demand_before by exact H. exact Hx.
  - rewrite demand_after by exact H. lra.
Qed.

Lemma monthly_of_annual_nonneg a : 0 <= a -> 0 <= monthly_of_annual a.
Proof.
  intros H. unfold monthly_of_annual.
  setoid_replace (a / 12 * 4000000 / 1000000000) with (a * (1 # 3000)) by field. lra.
Qed.

Lemma monthly_of_annual_linear c a : monthly_of_annual (c * a) == c * monthly_of_annual a.
Proof. unfold monthly_of_annual. field. Qed.

(* ---------- a zero charge / ceiling forces every feed (biofuel) variable of an added food to zero ---------- *)
Lemma bq_sum_zero b x rest : 0 <= x -> 0 <= rest -> bq b x + rest == 0 -> (b = true -> x == 0) /\ rest == 0.
Proof. intros Hx Hr H. destruct b; cbn [bq] in *; split; try lra; intros; try discriminate; lra. Qed.

Lemma feed_sum_zero_each i a m :
  nonneg a -> 0 < sw_kcals i -> feed_sum i a m <= 0 ->
  (add_sf i = true -> a SF_f m == 0) /\ (add_cr i = true -> a CR_f m == 0) /\ (add_sw i = true -> a SW_f m == 0) /\
  (add_cs i = true -> a CS_f m == 0) /\ (add_scp i = true -> a SCP_f m == 0).
Proof.
  intros Ha Hk H. unfold feed_sum in H.
  pose proof (Ha SF_f m). pose proof (Ha CR_f m). pose proof (Ha SW_f m). pose proof (Ha CS_f m). pose proof (Ha SCP_f m).
  assert (0 <= sw_kcals i * a SW_f m) by (apply Qmult_le_0_compat; lra).
  destruct (add_sf i), (add_cr i), (add_sw i), (add_cs i), (add_scp i); cbn [bq] in H;
    repeat split; intros; try discriminate; try lra;
    (assert (E : sw_kcals i * a SW_f m == 0) by lra;
     destruct (Qmult_integral _ _ E); lra).
Qed.

Lemma biofuel_sum_zero_each i a m :
  nonneg a -> 0 < sw_kcals i -> biofuel_sum i a m <= 0 ->
  (add_sf i = true -> a SF_b m == 0) /\ (add_cr i = true -> a CR_b m == 0) /\ (add_sw i = true -> a SW_b m == 0) /\
  (add_cs i = true -> a CS_b m == 0) /\ (add_scp i = true -> a SCP_b m == 0).
Proof.
  intros Ha Hk H. unfold biofuel_sum in H.
  pose proof (Ha SF_b m). pose proof (Ha CR_b m). pose proof (Ha SW_b m). pose proof (Ha CS_b m). pose proof (Ha SCP_b m).
  assert (0 <= sw_kcals i * a SW_b m) by (apply Qmult_le_0_compat; lra).
  destruct (add_sf i), (add_cr i), (add_sw i), (add_cs i), (add_scp i); cbn [bq] in H;
    repeat split; intros; try discriminate; try lra;
    (assert (E : sw_kcals i * a SW_b m == 0) by lra;
     destruct (Qmult_integral _ _ E); lra).
Qed.

(* human rounds: the totals are the charges; a charge within demand keeps use within demand; zero charge -> zero use *)
Lemma humans_within_demand i a (fd bd : list Q) :
  Feasible i ToHumans a -> has_nonhuman i = true ->
  forall m, (m < NM i)%nat ->
  at_ (feed_charge i) m <= nth m fd 0 -> at_ (biofuel_charge i) m <= nth m bd 0 ->
  feed_sum i a m <= nth m fd 0 /\ biofuel_sum i a m <= nth m bd 0.
Proof.
  intros F Hn m Hm H1 H2.
  pose proof (Feasible_feed_biofuel i ToHumans a F m Hm) as R.
  apply (sat_rows_feed_biofuel_humans i a m Hn) in R. destruct R as [R1 R2]. lra.
Qed.

Lemma humans_zero_charge_zero_use i a :
  Feasible i ToHumans a -> has_nonhuman i = true -> 0 < sw_kcals i ->
  forall m, (m < NM i)%nat -> at_ (feed_charge i) m <= 0 -> at_ (biofuel_charge i) m <= 0 ->
  ((add_sf i = true -> a SF_f m == 0) /\ (add_cr i = true -> a CR_f m == 0) /\ (add_sw i = true -> a SW_f m == 0) /\
   (add_cs i = true -> a CS_f m == 0) /\ (add_scp i = true -> a SCP_f m == 0)) /\
  ((add_sf i = true -> a SF_b m == 0) /\ (add_cr i = true -> a CR_b m == 0) /\ (add_sw i = true -> a SW_b m == 0) /\
   (add_cs i = true -> a CS_b m == 0) /\ (add_scp i = true -> a SCP_b m == 0)).
Proof.
  intros F Hn Hk m Hm H1 H2.
  pose proof (Feasible_feed_biofuel i ToHumans a F m Hm) as R.
  apply (sat_rows_feed_biofuel_humans i a m Hn) in R. destruct R as [R1 R2].
  pose proof (Feasible_nonneg i ToHumans a F) as Ha.
  split; [apply feed_sum_zero_each | apply biofuel_sum_zero_each]; try assumption; lra.
Qed.

(* feed-maximising round: within the ceiling, so within demand when the ceiling is, and zero where the ceiling is zero *)
Lemma animals_ceiling i a m :
  Feasible i ToAnimals a -> has_nonhuman i = true -> (m < NM i)%nat ->
  feed_sum i a m <= at_ (max_feed i) m /\ biofuel_sum i a m <= at_ (max_biofuel i) m.
Proof.
  intros F Hn Hm. pose proof (Feasible_feed_biofuel i ToAnimals a F m Hm) as R.
  destruct m as [|p].
  - apply (sat_rows_feed_biofuel_animals_O i a Hn) in R. tauto.
  - apply (sat_rows_feed_biofuel_animals_S i a p Hn) in R. tauto.
Qed.

Lemma animals_zero_ceiling_zero_use i a :
  Feasible i ToAnimals a -> has_nonhuman i = true -> 0 < sw_kcals i ->
  forall m, (m < NM i)%nat -> at_ (max_feed i) m <= 0 ->
  (add_sf i = true -> a SF_f m == 0) /\ (add_cr i = true -> a CR_f m == 0) /\ (add_sw i = true -> a SW_f m == 0) /\
  (add_cs i = true -> a CS_f m == 0) /\ (add_scp i = true -> a SCP_f m == 0).
Proof.
  intros F Hn Hk m Hm H1. destruct (animals_ceiling i a m F Hn Hm) as [R _].
  apply feed_sum_zero_each; [exact (Feasible_nonneg i ToAnimals a F) | exact Hk | lra].
Qed.

(* pinned human consumption in the feed-maximising round *)
Lemma animals_pins_crops i a m :
  Feasible i ToAnimals a -> add_cr i = true -> (m < NM i)%nat -> 0 <= at_ (pin_cr i) m ->
  (9999 # 10000) * at_ (pin_cr i) m <= a CR_h m.
Proof.
  intros F Hb Hm Hp. pose proof (Feasible_pin_cr i ToAnimals a F m Hb Hm) as R.
  apply sat_rows_pin_animals in R. destruct R as [R _].
  pose proof (pin_bounds_range i) as (B1 & _).
  assert ((9999 # 10000) * at_ (pin_cr i) m <= fst (pin_bounds i) * at_ (pin_cr i) m)
    by (apply Qmult_le_compat_r; assumption).
  lra.
Qed.

Lemma animals_pins_stored i a m :
  Feasible i ToAnimals a -> add_sf i = true -> (m < NM i)%nat -> 0 <= at_ (pin_sf i) m ->
  (9999 # 10000) * at_ (pin_sf i) m <= a SF_h m.
Proof.
  intros F Hb Hm Hp. pose proof (Feasible_pin_sf i ToAnimals a F m Hb Hm) as R.
  apply sat_rows_pin_animals in R. destruct R as [R _].
  pose proof (pin_bounds_range i) as (B1 & _).
  assert ((9999 # 10000) * at_ (pin_sf i) m <= fst (pin_bounds i) * at_ (pin_sf i) m)
    by (apply Qmult_le_compat_r; assumption).
  lra.
Qed.

Lemma animals_pins_meat i a m :
  Feasible i ToAnimals a -> add_meat i = true -> (m < NM i)%nat -> 0 <= at_ (pin_meat i) m ->
  (9999 # 10000) * at_ (pin_meat i) m <= a M_eaten m.
Proof.
  intros F Hb Hm Hp. pose proof (Feasible_pin_meat i ToAnimals a F m Hb Hm) as R.
  apply sat_rows_pin_animals in R. destruct R as [R _].
  pose proof (pin_bounds_range i) as (B1 & _).
  assert ((9999 # 10000) * at_ (pin_meat i) m <= fst (pin_bounds i) * at_ (pin_meat i) m)
    by (apply Qmult_le_compat_r; assumption).
  lra.
Qed.

(* ---------- the shut-off table ---------- *)
Lemma shutoff_table_documented : table_eqb shutoff_table documented_shutoff = true.
Proof. vm_compute. reflexivity. Qed.

Lemma months_le_horizon : forall n, (12 <= n)%nat -> forallb (bio_le_feed n) documented_shutoff = true.
Proof.
  intros n Hn. cbn [forallb documented_shutoff bio_le_feed months_of].
  rewrite Nat.leb_refl. cbn [andb].
  repeat match goal with |- context [Nat.leb ?x ?y] =>
    match x with n => fail 1 | _ => match y with n => fail 1 | _ => change (Nat.leb x y) with true end end end.
  reflexivity.
Qed.
