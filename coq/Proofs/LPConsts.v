(* The literals of optimizer.py that Model/LP.v repeats, re-read from the source on every run by
   harness/gen_optimizer_consts.py (Gen/OptimizerConsts.v), agree with the model.  A changed literal in the source
   breaks this file. *)
From Coq Require Import QArith List String Bool.
From Allfed Require Import Gen.OptimizerConsts Model.LP.
Import ListNotations.
Open Scope Q_scope.

(* the model's own literals, as they occur in LP.v *)
Definition model_floor (v : Q) : Q := v * (99995 # 100000).
Definition model_resource_order : list string :=
  ["ADD_SEAWEED"; "ADD_OUTDOOR_GROWING"; "ADD_STORED_FOOD"; "ADD_MEAT"; "ADD_METHANE_SCP"; "ADD_CELLULOSIC_SUGAR"]%string.

Lemma pin_bounds_from_source i :
  pin_bounds i = if Qlt_le_dec (pop i) 10000000 then src_pin_small else src_pin_large.
Proof. unfold pin_bounds, src_pin_small, src_pin_large. destruct (Qlt_le_dec (pop i) 10000000); reflexivity. Qed.

Lemma pin_switch_from_source : src_pin_switch_pop == 10000000.
Proof. reflexivity. Qed.

Lemma floors_from_source v : model_floor v == v * src_floor_humans /\ model_floor v == v * src_floor_animals.
Proof. unfold model_floor, src_floor_humans, src_floor_animals. split; field. Qed.

Lemma second_stage_uses_model_floor i v :
  second_stage i ToHumans v = map (fun m => mk [t 1 Consumed m] Ge (model_floor v)) (months i).
Proof. reflexivity. Qed.

Lemma weights_from_source : src_weight_feed == 2 # 3 /\ src_weight_biofuel == 1 # 3.
Proof. split; reflexivity. Qed.

Lemma resource_order_from_source : src_resource_order = model_resource_order.
Proof. reflexivity. Qed.

Lemma lp_literals_match_source :
  (forall i, pin_bounds i = if Qlt_le_dec (pop i) 10000000 then src_pin_small else src_pin_large) /\
  src_pin_switch_pop == 10000000 /\
  (forall v, model_floor v == v * src_floor_humans /\ model_floor v == v * src_floor_animals) /\
  (forall i v, second_stage i ToHumans v = map (fun m => mk [t 1 Consumed m] Ge (model_floor v)) (months i)) /\
  src_weight_feed == 2 # 3 /\ src_weight_biofuel == 1 # 3 /\
  src_resource_order = model_resource_order.
Proof.
  split; [exact pin_bounds_from_source|].
  split; [exact pin_switch_from_source|].
  split; [exact floors_from_source|].
  split; [exact second_stage_uses_model_floor|].
  split; [apply weights_from_source|].
  split; [apply weights_from_source|].
  exact resource_order_from_source.
Qed.
