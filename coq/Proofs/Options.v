(* Lemmas about Model/Options.v over the generated tables of Gen/Setters.v. *)
From Coq Require Import QArith List String Ascii Bool Arith ZArith Lia.
From Allfed Require Import Base.Dec Base.StrUtil Gen.Setters Model.Options.
Import ListNotations.
Open Scope Q_scope.
Open Scope string_scope.

(* ------------------------------------------------------------------ generic facts about the interpreter *)

Lemma str_mem_In : forall s l, str_mem s l = true <-> In s l.
Proof.
  intros s l; unfold str_mem; rewrite existsb_exists; split.
  - intros (x & Hx & He). apply String.eqb_eq in He; subst; assumption.
  - intro H; exists s; split; [assumption|apply String.eqb_refl].
Qed.

(* which components a statement may touch *)
Definition same_but_consts (s s' : lstate) : Prop :=
  flags s' = flags s /\ is_global s' = is_global s /\ desc s' = desc s /\ tconsts s' = tconsts s.

Lemma write_consts_flags : forall p k v s s', write_consts p k v s = Ok s' -> flags s' = flags s.
Proof.
  intros p k v s s'; unfold write_consts.
  destruct (String.eqb p ""); [intro H; inversion H; reflexivity|].
  destruct (lookup p (consts s)) as [[]|]; intro H; inversion H; reflexivity.
Qed.

Lemma write_consts_rej_same : forall p k v s kd s', write_consts p k v s = Rej kd s' -> s' = s.
Proof.
  intros p k v s kd s'; unfold write_consts.
  destruct (String.eqb p ""); [discriminate|].
  destruct (lookup p (consts s)) as [[]|]; intro H; inversion H; reflexivity.
Qed.

Lemma seaweed_cols_flags : forall pat dk cols s s', seaweed_cols pat dk cols s = Ok s' -> flags s' = flags s.
Proof.
  induction cols as [|[n v] t IH]; simpl; intros s s' H.
  - inversion H; reflexivity.
  - destruct (contains pat n); [|eauto].
    destruct (write_consts dk (replace_all pat "" n) v s) eqn:E; [|discriminate].
    rewrite (IH _ _ H). eapply write_consts_flags; eauto.
Qed.

(* flags only grow along successful statements *)
Lemma exec_stmt_flags_mono : forall r s st s', exec_stmt r s st = Ok s' -> forall f, In f (flags s) -> In f (flags s').
Proof.
  intros r s st s' H f Hf.
  destruct st; cbn [exec_stmt] in H.
  - inversion H; subst; exact Hf.
  - destruct (str_mem flag (flags s)); inversion H; subst; exact Hf.
  - inversion H; subst; simpl; right; exact Hf.
  - destruct (is_global s) as [b|]; [destruct (Bool.eqb b want)|]; inversion H; subst; exact Hf.
  - inversion H; subst; exact Hf.
  - inversion H; subst; exact Hf.
  - destruct (eval r (consts s) e); [|discriminate]. rewrite (write_consts_flags _ _ _ _ _ H); exact Hf.
  - destruct (eval r (consts s) e); inversion H; subst; exact Hf.
  - destruct (has_key key (consts s)); inversion H; subst; exact Hf.
  - destruct (eval r (consts s) e) as [[]|]; try discriminate.
    destruct (in_range lo q hi); inversion H; subst; exact Hf.
  - destruct (lookup key (consts s)) as [[]|]; try discriminate.
    destruct (approx_eq (qsum l) target); inversion H; subst; exact Hf.
  - destruct (lookup key (consts s)) as [[]|]; try discriminate.
    destruct (forallb _ _); [|discriminate]. destruct (Nat.leb n (List.length l)); inversion H; subst; exact Hf.
  - destruct (eval r (consts s) (ERow col)) as [[]|]; try discriminate; try (inversion H; subst; exact Hf).
    destruct (Qeq_bool q0 q); [|inversion H; subst; exact Hf].
    destruct (eval r (consts s) e); [|discriminate]. rewrite (write_consts_flags _ _ _ _ _ H); exact Hf.
  - destruct r as [cols|]; [|discriminate]. rewrite (seaweed_cols_flags _ _ _ _ _ H); exact Hf.
Qed.

Lemma exec_body_flags_mono : forall r b s s', exec_body r s b = Ok s' -> forall f, In f (flags s) -> In f (flags s').
Proof.
  induction b as [|st b IH]; simpl; intros s s' H f Hf.
  - inversion H; subst; exact Hf.
  - destruct (exec_stmt r s st) eqn:E; [|discriminate].
    eapply IH; [exact H|]. eapply exec_stmt_flags_mono; eauto.
Qed.

(* a body that contains SSetFlag f has f set after any successful run *)
Lemma exec_body_sets : forall r b s s' f, In (SSetFlag f) b -> exec_body r s b = Ok s' -> In f (flags s').
Proof.
  induction b as [|st b IH]; simpl; intros s s' f Hin H; [contradiction|].
  destruct (exec_stmt r s st) eqn:E; [|discriminate].
  destruct Hin as [->|Hin].
  - simpl in E. inversion E; subst. eapply exec_body_flags_mono; [exact H|simpl; left; reflexivity].
  - eapply IH; eauto.
Qed.

(* "the guard precedes the first effect": before SGuard f only description text and tests of
   IS_GLOBAL_ANALYSIS may occur (neither touches a dictionary or a flag) *)
Fixpoint guard_first (f : string) (b : list stmt) : bool :=
  match b with
  | SGuard g :: _ => String.eqb g f
  | SDesc _ :: b' => guard_first f b'
  | SAssertGlobal _ :: b' => guard_first f b'
  | _ => false
  end.

(* what a rejected second call may have changed: the description only *)
Definition only_desc_changed (s s' : lstate) : Prop :=
  flags s' = flags s /\ is_global s' = is_global s /\ consts s' = consts s /\ tconsts s' = tconsts s.

Lemma guard_first_rejects : forall r f b s, guard_first f b = true -> In f (flags s) ->
  exists k s', exec_body r s b = Rej k s' /\ only_desc_changed s s'.
Proof.
  induction b as [|st b IH]; simpl; intros s Hg Hf; [discriminate|].
  destruct st; try discriminate.
  - (* SDesc *) simpl.
    destruct (IH (with_desc s (desc s ++ s0)) Hg Hf) as (k & s' & E & (A & B & C & D)).
    exists k, s'; split; [exact E|]. repeat split; assumption.
  - (* SGuard *) apply String.eqb_eq in Hg; subst flag. simpl.
    assert (M : str_mem f (flags s) = true) by (apply str_mem_In; exact Hf). rewrite M.
    exists AssertRejected, s; split; [reflexivity|repeat split].
  - (* SAssertGlobal *) simpl. destruct (is_global s) as [g|].
    + destruct (Bool.eqb g want).
      * apply IH; assumption.
      * exists AssertRejected, s; split; [reflexivity|repeat split].
    + exists TypeRejected, s; split; [reflexivity|repeat split].
Qed.

(* ------------------------------------------------------------------ checked facts about the generated table *)

Definition setter_ok (x : setter) : bool :=
  match family x with
  | Some f => guard_first f (s_body x) && existsb (fun st => match st with SSetFlag g => String.eqb g f | _ => false end) (s_body x)
  | None => false
  end.

Lemma all_setters_ok : forallb setter_ok setters = true.
Proof. vm_compute. reflexivity. Qed.

Lemma setter_ok_spec : forall x, In x setters ->
  exists f, family x = Some f /\ guard_first f (s_body x) = true /\ In (SSetFlag f) (s_body x).
Proof.
  intros x Hx. pose proof all_setters_ok as H. rewrite forallb_forall in H. specialize (H x Hx).
  unfold setter_ok in H. destruct (family x) as [f|]; [|discriminate].
  apply andb_true_iff in H. destruct H as [H1 H2]. exists f; repeat split; [exact H1|].
  apply existsb_exists in H2. destruct H2 as (st & Hin & Hst). destruct st; try discriminate.
  apply String.eqb_eq in Hst; subst; exact Hin.
Qed.

Definition names_unique : bool :=
  let names := map s_name setters in
  forallb (fun n => Nat.eqb (List.length (filter (String.eqb n) names)) 1) names.
Lemma names_unique_ok : names_unique = true.
Proof. vm_compute. reflexivity. Qed.

Lemma find_setter_In : forall n x, find_setter n = Some x -> In x setters /\ s_name x = n.
Proof.
  intros n x H. unfold find_setter in H. apply find_some in H. destruct H as [H1 H2].
  apply String.eqb_eq in H2. split; assumption.
Qed.

(* ------------------------------------------------------------------ exactly once *)

Lemma apply_twice_rejected : forall n1 n2 x1 x2 f r1 r2 s s1,
  find_setter n1 = Some x1 -> find_setter n2 = Some x2 ->
  family x1 = Some f -> family x2 = Some f ->
  apply_setter n1 r1 s = Ok s1 ->
  forall s2, (forall g, In g (flags s1) -> In g (flags s2)) ->
  exists k s', apply_setter n2 r2 s2 = Rej k s' /\ only_desc_changed s2 s'.
Proof.
  intros n1 n2 x1 x2 f r1 r2 s s1 F1 F2 Fa1 Fa2 A1 s2 Hmono.
  destruct (find_setter_In _ _ F1) as [I1 _]. destruct (find_setter_In _ _ F2) as [I2 _].
  destruct (setter_ok_spec x1 I1) as (f1 & E1 & _ & S1). rewrite Fa1 in E1; inversion E1; subst f1.
  destruct (setter_ok_spec x2 I2) as (f2 & E2 & G2 & _). rewrite Fa2 in E2; inversion E2; subst f2.
  unfold apply_setter in *. rewrite F1 in A1. rewrite F2.
  apply (guard_first_rejects r2 f); [exact G2|]. apply Hmono. eapply exec_body_sets; eauto.
Qed.

(* histories: flags only grow *)
Lemma run_call_flags_mono : forall r s c s', run_call r s c = Ok s' -> forall f, In f (flags s) -> In f (flags s').
Proof.
  intros r s c s' H f Hf. destruct c; simpl in H.
  - unfold apply_setter in H. destruct (find_setter name); [|discriminate]. eapply exec_body_flags_mono; eauto.
  - rewrite (write_consts_flags _ _ _ _ _ H); exact Hf.
Qed.

Lemma run_history_flags_mono : forall r cs s s', run_history r s cs = Ok s' -> forall f, In f (flags s) -> In f (flags s').
Proof.
  induction cs as [|c cs IH]; simpl; intros s s' H f Hf.
  - inversion H; subst; exact Hf.
  - destruct (run_call r s c) eqn:E; [|discriminate]. eapply IH; [exact H|]. eapply run_call_flags_mono; eauto.
Qed.

Lemma run_history_app : forall r a b s,
  run_history r s (a ++ b) = match run_history r s a with Ok s' => run_history r s' b | rej => rej end.
Proof.
  induction a as [|c a IH]; simpl; intros b s; [reflexivity|].
  destruct (run_call r s c); [apply IH|reflexivity].
Qed.

(* any history in which a setter of family f succeeded rejects a later setter of the same family, at that call,
   with both dictionaries and all flags as they were before it *)
Lemma history_exactly_once : forall r pre mid n1 n2 x1 x2 f s0 s,
  find_setter n1 = Some x1 -> find_setter n2 = Some x2 ->
  family x1 = Some f -> family x2 = Some f ->
  run_history r s0 (pre ++ [HSet n1] ++ mid) = Ok s ->
  exists k s', run_history r s0 (pre ++ [HSet n1] ++ mid ++ [HSet n2]) = Rej k s' /\ only_desc_changed s s'.
Proof.
  intros r pre mid n1 n2 x1 x2 f s0 s F1 F2 Fa1 Fa2 H.
  rewrite run_history_app in H. destruct (run_history r s0 pre) as [sp|] eqn:Ep; [|discriminate].
  simpl in H. destruct (apply_setter n1 r sp) as [s1|] eqn:E1; [|discriminate].
  assert (Hm : forall g, In g (flags s1) -> In g (flags s)) by (intros g; eapply run_history_flags_mono; eauto).
  destruct (apply_twice_rejected n1 n2 x1 x2 f r r sp s1 F1 F2 Fa1 Fa2 E1 s Hm) as (k & s' & R & O).
  exists k, s'. split; [|exact O].
  rewrite run_history_app, Ep. simpl. rewrite E1.
  rewrite run_history_app, H. simpl. rewrite R. reflexivity.
Qed.

(* ------------------------------------------------------------------ dispatch: flags and check_all_set *)

Lemma run_dact_flags_mono : forall r s a s', run_dact r s a = Ok s' -> forall f, In f (flags s) -> In f (flags s').
Proof.
  intros r s a s' H f Hf. destruct a; simpl in H.
  - eapply exec_stmt_flags_mono; eauto.
  - unfold apply_setter in H. destruct (find_setter name); [|discriminate]. eapply exec_body_flags_mono; eauto.
  - destruct r; inversion H; subst; exact Hf.
  - discriminate.
Qed.

Lemma run_dacts_flags_mono : forall r l s s', run_dacts r s l = Ok s' -> forall f, In f (flags s) -> In f (flags s').
Proof.
  induction l as [|a l IH]; simpl; intros s s' H f Hf.
  - inversion H; subst; exact Hf.
  - destruct (run_dact r s a) eqn:E; [|discriminate]. eapply IH; [exact H|]. eapply run_dact_flags_mono; eauto.
Qed.

Lemma run_step_flags_mono : forall o r s st s', run_step o r s st = Ok s' -> forall f, In f (flags s) -> In f (flags s').
Proof.
  intros o r s st s' H f Hf. destruct st; simpl in H.
  - destruct (lookup optkey o); [|discriminate]. destruct (find_branch o0 branches); [|discriminate].
    eapply run_dacts_flags_mono; eauto.
  - destruct (lookup optkey o); [|discriminate]. rewrite (write_consts_flags _ _ _ _ _ H); exact Hf.
Qed.

Definition body_sets (f : string) (b : list stmt) : bool :=
  existsb (fun st => match st with SSetFlag g => String.eqb g f | _ => false end) b.
Definition dact_sets (f : string) (a : dact) : bool :=
  match a with
  | DCall n => match find_setter n with Some x => body_sets f (s_body x) | None => true end
  | DExit => true
  | _ => false
  end.
Definition branch_sets (f : string) (acts : list dact) : bool := existsb (dact_sets f) acts.
Definition step_sets (f : string) (st : dstep) : bool :=
  match st with
  | DChain _ brs => forallb (fun br => branch_sets f (snd br)) brs
  | _ => false
  end.
Definition all_covered : bool := forallb (fun f => existsb (step_sets f) dispatch_steps) check_flags.

Lemma all_covered_ok : all_covered = true.
Proof. vm_compute. reflexivity. Qed.

Lemma body_sets_In : forall f b, body_sets f b = true -> In (SSetFlag f) b.
Proof.
  intros f b H. unfold body_sets in H. apply existsb_exists in H. destruct H as (st & Hin & Hst).
  destruct st; try discriminate. apply String.eqb_eq in Hst; subst; exact Hin.
Qed.

Lemma run_dacts_sets : forall r f l s s', branch_sets f l = true -> run_dacts r s l = Ok s' -> In f (flags s').
Proof.
  induction l as [|a l IH]; simpl; intros s s' Hb H; [discriminate|].
  destruct (run_dact r s a) as [s1|] eqn:E; [|discriminate].
  destruct (dact_sets f a) eqn:Da.
  - destruct a; simpl in Da; simpl in E; try discriminate.
    unfold apply_setter in E. destruct (find_setter name) as [x|]; [|discriminate].
    eapply run_dacts_flags_mono; [exact H|]. eapply exec_body_sets; [apply body_sets_In; exact Da|exact E].
  - simpl in Hb. eapply IH; eauto.
Qed.

Lemma find_branch_In : forall v brs acts, find_branch v brs = Some acts -> exists lit, In (lit, acts) brs /\ optv_is_str v lit = true.
Proof.
  intros v brs acts H. unfold find_branch in H.
  destruct (find (fun br => optv_is_str v (fst br)) brs) as [[lit a]|] eqn:E; [|discriminate].
  inversion H; subst. apply find_some in E. destruct E as [E1 E2]. exists lit; split; assumption.
Qed.

Lemma run_step_sets : forall o r f st s s', step_sets f st = true -> run_step o r s st = Ok s' -> In f (flags s').
Proof.
  intros o r f st s s' Hs H. destruct st; simpl in Hs; [|discriminate]. simpl in H.
  destruct (lookup optkey o) as [v|]; [|discriminate].
  destruct (find_branch v branches) as [acts|] eqn:E; [|discriminate].
  destruct (find_branch_In _ _ _ E) as (lit & Hin & _).
  rewrite forallb_forall in Hs. specialize (Hs _ Hin). simpl in Hs. eapply run_dacts_sets; eauto.
Qed.

Lemma run_steps_flags_mono : forall o r l s s', run_steps o r s l = Ok s' -> forall f, In f (flags s) -> In f (flags s').
Proof.
  induction l as [|st l IH]; simpl; intros s s' H f Hf.
  - inversion H; subst; exact Hf.
  - destruct (run_step o r s st) eqn:E; [|discriminate]. eapply IH; [exact H|]. eapply run_step_flags_mono; eauto.
Qed.

Lemma run_steps_sets : forall o r f l s s', existsb (step_sets f) l = true -> run_steps o r s l = Ok s' -> In f (flags s').
Proof.
  induction l as [|st l IH]; simpl; intros s s' Hb H; [discriminate|].
  destruct (run_step o r s st) as [s1|] eqn:E; [|discriminate].
  destruct (step_sets f st) eqn:Ds.
  - eapply run_steps_flags_mono; [exact H|]. eapply run_step_sets; eauto.
  - simpl in Hb. eapply IH; eauto.
Qed.

(* overrides never touch flags *)
Lemma ov_substr_flags : forall pat suf i o s s', ov_substr pat suf i o s = Ok s' -> flags s' = flags s.
Proof.
  induction o as [|[k v] t IH]; simpl; intros s s' H.
  - inversion H; reflexivity.
  - destruct (contains pat k); [|apply IH; exact H].
    destruct (if i then to_int v else to_float v) as [x|]; [|discriminate].
    rewrite (IH _ _ H). reflexivity.
Qed.

Lemma mul_key_flags : forall m k s s', mul_key m k s = Ok s' -> flags s' = flags s.
Proof.
  intros m k s s'; unfold mul_key. destruct (lookup k (consts s)) as [[]|]; intro H; inversion H; reflexivity.
Qed.
Lemma mul_keys_flags : forall m ks s s', mul_keys m ks s = Ok s' -> flags s' = flags s.
Proof.
  induction ks as [|k t IH]; simpl; intros s s' H; [inversion H; reflexivity|].
  destruct (mul_key m k s) eqn:E; [|discriminate]. rewrite (IH _ _ H). eapply mul_key_flags; eauto.
Qed.
Lemma mul_keys_try_flags : forall m ks s, flags (mul_keys_try m ks s) = flags s.
Proof.
  induction ks as [|k t IH]; simpl; intros s; [reflexivity|].
  destruct (mul_key m k s) eqn:E; [|reflexivity]. rewrite IH. eapply mul_key_flags; eauto.
Qed.

Lemma run_ovr_flags : forall o s ov s', run_ovr o s ov = Ok s' -> flags s' = flags s.
Proof.
  intros o s ov s' H. destruct ov; cbn [run_ovr] in H.
  - eapply ov_substr_flags; eauto.
  - destruct (lookup key o); [|inversion H; reflexivity].
    destruct (to_float o0); [|discriminate].
    destruct (write_consts "" key (VNum q) s) eqn:E; [|discriminate].
    destruct (in_range lo q hi); [|discriminate]. inversion H; subst. eapply write_consts_flags; eauto.
  - destruct (lookup optkey o); [|inversion H; reflexivity].
    destruct (to_float o0); [|discriminate].
    destruct (in_range lo q hi); [|discriminate].
    destruct (mul_keys q keys s) eqn:E; [|discriminate]. inversion H; subst.
    rewrite mul_keys_try_flags. eapply mul_keys_flags; eauto.
Qed.

Lemma run_ovrs_flags : forall o l s s', run_ovrs o s l = Ok s' -> flags s' = flags s.
Proof.
  induction l as [|ov l IH]; simpl; intros s s' H; [inversion H; reflexivity|].
  destruct (run_ovr o s ov) eqn:E; [|discriminate]. rewrite (IH _ _ H). eapply run_ovr_flags; eauto.
Qed.

Lemma dispatch_all_set : forall opts r s, dispatch opts r = DOk s -> check_all_set s = true.
Proof.
  intros opts r s H. unfold dispatch in H.
  destruct (negb (forallb (fun k => has_key k opts) required_keys)); [discriminate|].
  destruct (iso3_of r); [|discriminate].
  destruct (alter failing_scenarios opts v) as [o'|]; [|discriminate].
  destruct (run_steps o' r init_state dispatch_steps) as [s1|] eqn:E1; [|discriminate].
  destruct (run_ovrs o' s1 overrides) as [s2|] eqn:E2; [|discriminate].
  inversion H; subst s2. unfold check_all_set. apply forallb_forall. intros f Hf.
  apply str_mem_In. rewrite (run_ovrs_flags _ _ _ _ E2).
  pose proof all_covered_ok as C. unfold all_covered in C. rewrite forallb_forall in C.
  eapply run_steps_sets; [apply C; exact Hf|exact E1].
Qed.

Lemma check_all_set_iff : forall s, check_all_set s = true <-> (forall f, In f check_flags -> In f (flags s)).
Proof.
  intro s. unfold check_all_set. rewrite forallb_forall. split; intros H f Hf.
  - apply str_mem_In. apply H; exact Hf.
  - apply str_mem_In. apply H; exact Hf.
Qed.

(* ------------------------------------------------------------------ dispatch: rejections *)

Lemma missing_key_rejected : forall opts r k, In k required_keys -> lookup k opts = None -> dispatch opts r = DRej AssertRejected.
Proof.
  intros opts r k Hk Hl. unfold dispatch.
  destruct (forallb (fun k0 => has_key k0 opts) required_keys) eqn:E; [|reflexivity].
  rewrite forallb_forall in E. specialize (E k Hk). unfold has_key in E. rewrite Hl in E. discriminate.
Qed.

Definition no_branch (v : optv) (brs : list (string * list dact)) : Prop :=
  forall lit acts, In (lit, acts) brs -> optv_is_str v lit = false.

Lemma find_branch_none : forall v brs, no_branch v brs -> find_branch v brs = None.
Proof.
  intros v brs H. unfold find_branch.
  destruct (find (fun br => optv_is_str v (fst br)) brs) as [[lit a]|] eqn:E; [|reflexivity].
  apply find_some in E. destruct E as [E1 E2]. simpl in E2. rewrite (H _ _ E1) in E2. discriminate.
Qed.

Lemma run_steps_unknown : forall o r key brs v l s, In (DChain key brs) l -> lookup key o = Some v -> no_branch v brs ->
  exists k s', run_steps o r s l = Rej k s'.
Proof.
  induction l as [|st l IH]; simpl; intros s Hin Hl Hn; [contradiction|].
  destruct (run_step o r s st) as [s1|k s1] eqn:E.
  - destruct Hin as [->|Hin].
    + simpl in E. rewrite Hl, (find_branch_none _ _ Hn) in E. discriminate.
    + eapply IH; eauto.
  - exists k, s1; reflexivity.
Qed.

(* the correction applied by alter_scenario_if_known_to_fail only ever replaces a value that was itself one of
   the literals of that option's chain (checked on the generated tables) *)
Definition chain_lits (key : string) : list string :=
  flat_map (fun st => match st with DChain k brs => if String.eqb k key then map fst brs else [] | _ => [] end) dispatch_steps.
Definition failing_wf (f : failing) : bool :=
  match lookup (fst (f_corr f)) (f_conds f) with
  | Some vals => forallb (fun v => str_mem v (chain_lits (fst (f_corr f)))) vals
  | None => false
  end.
Lemma failing_wf_ok : forallb failing_wf failing_scenarios = true.
Proof. vm_compute. reflexivity. Qed.

Lemma lookup_set_assoc_other : forall A k k' (v : A) d, k' <> k -> lookup k' (set_assoc k v d) = lookup k' d.
Proof.
  induction d as [|[a b] d IH]; simpl; intros Hne.
  - destruct (String.eqb_spec k' k); [contradiction|reflexivity].
  - destruct (String.eqb_spec k a) as [->|Hka]; simpl.
    + destruct (String.eqb_spec k' a); [contradiction|reflexivity].
    + destruct (String.eqb_spec k' a); [reflexivity|apply IH; exact Hne].
Qed.

Lemma alter_lookup : forall fs opts iso opts' key, alter fs opts iso = AOk opts' ->
  lookup key opts' = lookup key opts \/
  (exists f, In f fs /\ key = fst (f_corr f) /\ forallb (cond_matches opts) (f_conds f) = true).
Proof.
  induction fs as [|f fs IH]; simpl; intros opts iso opts' key H.
  - inversion H; left; reflexivity.
  - destruct (negb (forallb (fun c => has_key (fst c) opts) (f_conds f))); [discriminate|].
    destruct (forallb (cond_matches opts) (f_conds f) && value_is_str iso (f_code f)) eqn:E.
    + inversion H; subst. apply andb_true_iff in E. destruct E as [E _].
      destruct (String.eqb_spec key (fst (f_corr f))) as [->|Hne].
      * right. exists f; repeat split; [left; reflexivity|exact E].
      * left. apply lookup_set_assoc_other; exact Hne.
    + destruct (IH _ _ _ key H) as [L|(g & Hg & R)]; [left; exact L|right; exists g; split; [right; exact Hg|exact R]].
Qed.

Lemma lookup_In_fst : forall A k (d : list (string * A)) v, lookup k d = Some v -> In (k, v) d.
Proof. intros; apply lookup_In; assumption. Qed.

Lemma unknown_value_rejected : forall opts r key brs v,
  In (DChain key brs) dispatch_steps -> lookup key opts = Some v ->
  (forall lit, In lit (chain_lits key) -> optv_is_str v lit = false) ->
  exists k, dispatch opts r = DRej k.
Proof.
  intros opts r key brs v Hin Hl Hno. unfold dispatch.
  destruct (negb (forallb (fun k => has_key k opts) required_keys)); [eexists; reflexivity|].
  destruct (iso3_of r) as [iso|]; [|eexists; reflexivity].
  destruct (alter failing_scenarios opts iso) as [o'|] eqn:Ea; [|eexists; reflexivity].
  assert (Hl' : lookup key o' = Some v).
  { destruct (alter_lookup _ _ _ _ key Ea) as [L|(f & Hf & Hk & Hm)]; [rewrite L; exact Hl|].
    exfalso. pose proof failing_wf_ok as W. rewrite forallb_forall in W. specialize (W f Hf). unfold failing_wf in W.
    rewrite <- Hk in W. destruct (lookup key (f_conds f)) as [vals|] eqn:Ec; [|discriminate].
    rewrite forallb_forall in Hm. specialize (Hm _ (lookup_In _ _ _ Ec)). unfold cond_matches in Hm. simpl in Hm.
    rewrite Hl in Hm. apply existsb_exists in Hm. destruct Hm as (lit & Hlit & Hv).
    rewrite forallb_forall in W. specialize (W lit Hlit). apply str_mem_In in W.
    rewrite (Hno lit W) in Hv. discriminate. }
  assert (Hn : no_branch v brs).
  { intros lit acts Hb. apply Hno. unfold chain_lits. apply in_flat_map. exists (DChain key brs). split; [exact Hin|].
    rewrite String.eqb_refl. apply in_map_iff. exists (lit, acts); split; [reflexivity|exact Hb]. }
  destruct (run_steps_unknown o' r key brs v dispatch_steps init_state Hin Hl' Hn) as (k & s' & R).
  rewrite R. eexists; reflexivity.
Qed.

(* ------------------------------------------------------------------ head-count key *)

Lemma head_keys_ok : forallb (fun c => match head_column (head_const_key c) with Some c' => String.eqb c' c | None => false end)
                             species_head_columns = true.
Proof. vm_compute. reflexivity. Qed.

Lemma head_key_species : forall c, In c species_head_columns -> head_column (head_const_key c) = Some c.
Proof.
  intros c Hc. pose proof head_keys_ok as H. rewrite forallb_forall in H. specialize (H c Hc).
  destruct (head_column (head_const_key c)) as [c'|]; [|discriminate]. apply String.eqb_eq in H; subst; reflexivity.
Qed.

(* the override is applied after the country code has been remapped (SWT -> SWZ), so it is written to the very
   row create_animal_objects reads - for EVERY country code.  If the two statements are ever swapped back the
   translator emits head_override_before_remap = true and this proof no longer compiles. *)
Lemma head_reach_all : forall code, head_write_label code = head_read_label code.
Proof.
  intro code. unfold head_write_label, head_read_label.
  change head_override_before_remap with false. reflexivity.
Qed.

(* ------------------------------------------------------------------ witness configurations (non-vacuity, accepted values) *)

Fixpoint expr_cols (e : expr) : list string :=
  match e with
  | ERow c => [c]
  | EAdd a b | ESub a b | EMul a b | EDiv a b | ERepeat a b => (expr_cols a ++ expr_cols b)%list
  | EList l => (fix go (l : list expr) : list string := match l with [] => [] | x :: t => (expr_cols x ++ go t)%list end) l
  | _ => []
  end.
Definition stmt_cols (st : stmt) : list string :=
  match st with
  | SWrite _ _ e | STWrite _ e | SAssertRange _ e _ => expr_cols e
  | SWriteIfRowEq c _ _ _ e => c :: expr_cols e
  | _ => []
  end.
(* a country row that has every column any setter reads: 1/12 everywhere (seasonality sums to one) *)
Definition synthetic_row : dict :=
  ("iso3", VStr "XXX") :: ("seaweed_growth_per_day_7", VNum (5 # 2)) ::
  map (fun c => (c, VNum (1 # 12))) (flat_map (fun x => flat_map stmt_cols (s_body x)) setters).

Definition base_global : options :=
  [("scale", OStr "global"); ("NMONTHS", ONum 120); ("stored_food", OStr "baseline");
   ("ratio_stocks_untouched", OStr "zero"); ("shutoff", OStr "continued"); ("waste", OStr "baseline_globally");
   ("nutrition", OStr "catastrophe"); ("intake_constraints", OStr "enabled"); ("seasonality", OStr "baseline_globally");
   ("grasses", OStr "global_nuclear_winter"); ("fish", OStr "nuclear_winter"); ("crop_disruption", OStr "global_nuclear_winter");
   ("protein", OStr "not_required"); ("fat", OStr "not_required"); ("cull", OStr "do_eat_culled");
   ("scenario", OStr "all_resilient_foods"); ("meat_strategy", OStr "reduce_breeding")].
Definition base_country : options :=
  [("scale", OStr "country"); ("NMONTHS", ONum 120); ("stored_food", OStr "baseline");
   ("ratio_stocks_untouched", OStr "zero"); ("shutoff", OStr "long_delayed_shutoff"); ("waste", OStr "baseline_in_country");
   ("nutrition", OStr "catastrophe"); ("intake_constraints", OStr "enabled"); ("seasonality", OStr "country");
   ("grasses", OStr "country_nuclear_winter"); ("fish", OStr "nuclear_winter"); ("crop_disruption", OStr "country_nuclear_winter");
   ("protein", OStr "not_required"); ("fat", OStr "not_required"); ("cull", OStr "do_eat_culled");
   ("scenario", OStr "all_resilient_foods"); ("meat_strategy", OStr "reduce_breeding")].
Definition witness_configs : list (options * row) :=
  [(base_global, None); (base_country, Some synthetic_row)].

Definition is_exit (a : dact) : bool := match a with DExit => true | _ => false end.
Definition accepted_on (key v : string) (cfg : options * row) : bool :=
  match dispatch (set_assoc key (OStr v) (fst cfg)) (snd cfg) with DOk _ => true | DRej _ => false end.
Definition value_ok (key v : string) (acts : list dact) : bool :=
  existsb is_exit acts || existsb (accepted_on key v) witness_configs.
Definition values_ok_on (steps : list dstep) : bool :=
  forallb (fun st => match st with
                     | DChain key brs => forallb (fun br => value_ok key (fst br) (snd br)) brs
                     | _ => true
                     end) steps.
Lemma all_values_ok_true : values_ok_on dispatch_steps = true.
Proof. vm_compute. reflexivity. Qed.

Lemma values_ok_on_spec : forall steps, values_ok_on steps = true ->
  forall key brs v acts, In (DChain key brs) steps -> In (v, acts) brs -> value_ok key v acts = true.
Proof.
  intros steps H key brs v acts Hs Hb. unfold values_ok_on in H.
  rewrite forallb_forall in H. specialize (H _ Hs). cbv beta iota in H.
  rewrite forallb_forall in H. exact (H _ Hb).
Qed.

Lemma value_ok_spec : forall key v acts, value_ok key v acts = true ->
  In DExit acts \/
  exists cfg s, In cfg witness_configs /\ dispatch (set_assoc key (OStr v) (fst cfg)) (snd cfg) = DOk s.
Proof.
  intros key v acts H. unfold value_ok in H.
  apply orb_true_iff in H. destruct H as [H|H].
  - left. apply existsb_exists in H. destruct H as (a & Ha & He). destruct a; try discriminate. exact Ha.
  - right. apply existsb_exists in H. destruct H as (cfg & Hc & Ha). unfold accepted_on in Ha.
    destruct (dispatch (set_assoc key (OStr v) (fst cfg)) (snd cfg)) as [s|] eqn:E; [|discriminate].
    exists cfg, s; split; [exact Hc|exact E].
Qed.

Lemma values_accepted : forall key brs v acts, In (DChain key brs) dispatch_steps -> In (v, acts) brs ->
  In DExit acts \/
  exists cfg s, In cfg witness_configs /\ dispatch (set_assoc key (OStr v) (fst cfg)) (snd cfg) = DOk s.
Proof.
  intros key brs v acts Hs Hb. apply value_ok_spec.
  exact (values_ok_on_spec dispatch_steps all_values_ok_true key brs v acts Hs Hb).
Qed.

(* ------------------------------------------------------------------ what a literal setter writes *)

(* final value of every key a body writes when run without a country row; None when the body is not a plain
   sequence of literal writes (reads the row, rebinds the dictionary, writes time constants) *)
Fixpoint final_writes (env acc : dict) (b : list stmt) : option dict :=
  match b with
  | [] => Some acc
  | SWrite p k e :: b' =>
    match eval None (acc ++ env)%list e with
    | EvOk v => final_writes env (set_assoc (dkey p k) v acc) b'
    | EvErr _ => None
    end
  | (STWrite _ _ | SNew | SSeaweedCols _ _ | SWriteIfRowEq _ _ _ _ _) :: _ => None
  | _ :: b' => final_writes env acc b'
  end.

Definition chain_setter (fam v : string) : option setter :=
  match find (fun st => match st with DChain k _ => String.eqb k fam | _ => false end) dispatch_steps with
  | Some (DChain _ brs) =>
    match lookup v brs with
    | Some [DCall n] => find_setter n
    | _ => None
    end
  | _ => None
  end.

Definition same_writes (spec got : dict) : bool :=
  Nat.eqb (List.length spec) (List.length got) &&
  forallb (fun kv => match lookup (fst kv) got with Some v => value_close 0 (snd kv) v | None => false end) spec.

Definition doc_env : dict := [("NMONTHS", VNum 120); ("INITIAL_GLOBAL_CROP_AREA", VNum 1430000000); ("DELAY", VDict);
                              ("ROTATION_IMPROVEMENTS", VDict)].
Definition entry_holds (e : string * string * dict) : bool :=
  match e with
  | (fam, v, spec) =>
    match chain_setter fam v with
    | Some x => match final_writes doc_env [] (s_body x) with Some got => same_writes spec got | None => false end
    | None => false
    end
  end.

(* ================================================================== override frame *)
(* ---- association lists: lookup / update *)
Lemma lookup_set_assoc_same : forall A k (v : A) d, lookup k (set_assoc k v d) = Some v.
Proof.
  induction d as [|[a b] d IH]; simpl.
  - rewrite String.eqb_refl; reflexivity.
  - destruct (String.eqb_spec k a) as [->|Hne]; simpl.
    + rewrite String.eqb_refl; reflexivity.
    + destruct (String.eqb_spec k a); [contradiction|exact IH].
Qed.

Lemma lookup_app : forall A k (a b : list (string * A)),
  lookup k (a ++ b)%list = match lookup k a with Some v => Some v | None => lookup k b end.
Proof.
  induction a as [|[x y] a IH]; simpl; intro b; [reflexivity|].
  destruct (String.eqb k x); [reflexivity|apply IH].
Qed.

Lemma lookup_filter : forall (p : string -> bool) k (d : dict),
  lookup k (filter (fun kv => p (fst kv)) d) = if p k then lookup k d else None.
Proof.
  induction d as [|[a b] d IH]; simpl; [destruct (p k); reflexivity|].
  destruct (p a) eqn:Pa; simpl.
  - destruct (String.eqb_spec k a) as [->|Hne]; [rewrite Pa; reflexivity|exact IH].
  - rewrite IH. destruct (String.eqb_spec k a) as [->|Hne]; [rewrite Pa; reflexivity|reflexivity].
Qed.

(* constants_for_params[k] = v at the top level *)
Definition write_top (k : string) (v : value) (s : lstate) : lstate :=
  with_consts s (set_assoc k v (drop_children k (consts s))).

Lemma write_consts_top : forall k v s, write_consts "" k v s = Ok (write_top k v s).
Proof. reflexivity. Qed.

Lemma lookup_write_top : forall k v s k',
  lookup k' (consts (write_top k v s)) =
  if String.eqb k' k then Some v else if prefix (k ++ ".") k' then None else lookup k' (consts s).
Proof.
  intros k v s k'. unfold write_top; simpl.
  destruct (String.eqb_spec k' k) as [->|Hne]; [apply lookup_set_assoc_same|].
  rewrite lookup_set_assoc_other by exact Hne. unfold drop_children.
  rewrite (lookup_filter (fun x => negb (prefix (k ++ ".") x))).
  destruct (prefix (k ++ ".") k'); reflexivity.
Qed.

(* ---- strings *)
Definition nodot (k : string) : bool := negb (mem_ascii "."%char k).

Lemma prefix_dot_mem : forall w k, prefix (w ++ ".") k = true -> mem_ascii "."%char k = true.
Proof.
  induction w as [|c w IH]; intros k H.
  - destruct k as [|b k]; cbn [prefix append] in H; [discriminate H|].
    destruct (ascii_dec "."%char b) as [e|]; [|discriminate H]. subst b. reflexivity.
  - destruct k as [|b k]; cbn [prefix append] in H; [discriminate H|].
    destruct (ascii_dec c b); [|discriminate H].
    cbn [mem_ascii]. destruct (Ascii.eqb "."%char b); [reflexivity|apply IH; exact H].
Qed.

Lemma nodot_not_child : forall w k, nodot k = true -> prefix (w ++ ".") k = false.
Proof.
  intros w k H. destruct (prefix (w ++ ".") k) eqn:E; [|reflexivity].
  apply prefix_dot_mem in E. unfold nodot in H. rewrite E in H. discriminate.
Qed.

Lemma prefix_app : forall p k suf, prefix p k = true -> prefix p (k ++ suf) = true.
Proof.
  induction p as [|a p IH]; intros k suf H; [destruct k; [destruct suf|]; reflexivity|].
  destruct k as [|b k]; cbn [prefix] in H; [discriminate H|]. cbn [prefix append].
  destruct (ascii_dec a b); [apply IH; exact H|discriminate H].
Qed.

Lemma contains_app : forall pat k suf, contains pat k = true -> contains pat (k ++ suf) = true.
Proof.
  induction k as [|c k IH]; intros suf H.
  - cbn [contains] in H. destruct (prefix pat "") eqn:E; [|discriminate H].
    destruct pat; [|cbn [prefix] in E; discriminate E]. cbn [append]. destruct suf; reflexivity.
  - cbn [contains] in H. cbn [append contains]. destruct (prefix pat (String c k)) eqn:E.
    + change (String c (k ++ suf)) with (String c k ++ suf). rewrite (prefix_app _ _ suf E). reflexivity.
    + destruct (prefix pat (String c (k ++ suf))); [reflexivity|apply IH; exact H].
Qed.

(* ---- states that agree outside a named region N *)
Definition Rel (N : string -> bool) (s s' : lstate) : Prop :=
  flags s' = flags s /\ is_global s' = is_global s /\ desc s' = desc s /\ tconsts s' = tconsts s /\
  forall k, N k = false -> lookup k (consts s') = lookup k (consts s).

Lemma Rel_refl : forall N s, Rel N s s.
Proof. intros; repeat split. Qed.

Lemma write_top_Rel : forall N k v s s', Rel N s s' -> Rel N (write_top k v s) (write_top k v s').
Proof.
  intros N k v s s' (A & B & C & D & E). repeat split; try assumption.
  intros k' Hk. rewrite !lookup_write_top.
  destruct (String.eqb k' k); [reflexivity|]. destruct (prefix (k ++ ".") k'); [reflexivity|apply E; exact Hk].
Qed.

Definition Nof (Kc : string) (k : string) : bool := String.eqb k Kc || prefix (Kc ++ ".") k.

Lemma write_top_Nof : forall Kc v s, Rel (Nof Kc) s (write_top Kc v s).
Proof.
  intros Kc v s. repeat split. intros k Hk. rewrite lookup_write_top. unfold Nof in Hk.
  apply orb_false_iff in Hk. destruct Hk as [H1 H2]. rewrite H1, H2. reflexivity.
Qed.

Lemma ov_substr_Rel : forall N pat suf i o s s' t, Rel N s s' -> ov_substr pat suf i o s = Ok t ->
  exists t', ov_substr pat suf i o s' = Ok t' /\ Rel N t t'.
Proof.
  induction o as [|[k v] o IH]; simpl; intros s s' t HR H.
  - inversion H; subst. exists s'; split; [reflexivity|exact HR].
  - destruct (contains pat k); [|eapply IH; eauto].
    destruct (if i then to_int v else to_float v) as [x|]; [|discriminate].
    eapply IH; [|exact H]. apply (write_top_Rel N (k ++ suf) (VNum x)); exact HR.
Qed.

Lemma mul_key_Rel : forall N m k s s', Rel N s s' -> N k = false ->
  match mul_key m k s with
  | Ok t => exists t', mul_key m k s' = Ok t' /\ Rel N t t'
  | Rej kd _ => mul_key m k s' = Rej kd s'
  end.
Proof.
  intros N m k s s' HR Hk. pose proof HR as (A & B & C & D & E). unfold mul_key. rewrite (E k Hk).
  destruct (lookup k (consts s)) as [[x| | | | |]|]; try reflexivity.
  eexists; split; [reflexivity|]. repeat split; try assumption. simpl. intros k' Hk'.
  destruct (String.eqb_spec k' k) as [->|Hne]; [rewrite !lookup_set_assoc_same; reflexivity|].
  rewrite !lookup_set_assoc_other by exact Hne. apply E; exact Hk'.
Qed.

Lemma mul_keys_Rel : forall N m ks s s' t, Rel N s s' -> forallb (fun k => negb (N k)) ks = true ->
  mul_keys m ks s = Ok t -> exists t', mul_keys m ks s' = Ok t' /\ Rel N t t'.
Proof.
  induction ks as [|k ks IH]; simpl; intros s s' t HR Hn H.
  - inversion H; subst. exists s'; split; [reflexivity|exact HR].
  - apply andb_true_iff in Hn. destruct Hn as [Hk Hn]. apply negb_true_iff in Hk.
    pose proof (mul_key_Rel N m k s s' HR Hk) as M. destruct (mul_key m k s) as [u|]; [|discriminate].
    destruct M as (u' & M1 & M2). rewrite M1. eapply IH; eauto.
Qed.

Lemma mul_keys_try_Rel : forall N m ks s s', Rel N s s' -> forallb (fun k => negb (N k)) ks = true ->
  Rel N (mul_keys_try m ks s) (mul_keys_try m ks s').
Proof.
  induction ks as [|k ks IH]; simpl; intros s s' HR Hn; [exact HR|].
  apply andb_true_iff in Hn. destruct Hn as [Hk Hn]. apply negb_true_iff in Hk.
  pose proof (mul_key_Rel N m k s s' HR Hk) as M. destruct (mul_key m k s) as [u|].
  - destruct M as (u' & M1 & M2). rewrite M1. apply IH; assumption.
  - rewrite M. exact HR.
Qed.

Definition ov_reads_ok (N : string -> bool) (ov : ovr) : bool :=
  match ov with
  | OvMul _ _ _ keys trys => forallb (fun k => negb (N k)) keys && forallb (fun k => negb (N k)) trys
  | _ => true
  end.

Lemma run_ovr_Rel : forall N o ov s s' t, Rel N s s' -> ov_reads_ok N ov = true -> run_ovr o s ov = Ok t ->
  exists t', run_ovr o s' ov = Ok t' /\ Rel N t t'.
Proof.
  intros N o ov s s' t HR Hok H. destruct ov; cbn [run_ovr] in *.
  - eapply ov_substr_Rel; eauto.
  - destruct (lookup key o) as [v|]; [|inversion H; subst; exists s'; split; [reflexivity|exact HR]].
    destruct (to_float v) as [x|]; [|discriminate]. rewrite write_consts_top in *.
    destruct (in_range lo x hi); [|discriminate]. inversion H; subst.
    eexists; split; [reflexivity|apply write_top_Rel; exact HR].
  - destruct (lookup optkey o) as [v|]; [|inversion H; subst; exists s'; split; [reflexivity|exact HR]].
    destruct (to_float v) as [m|]; [|discriminate]. destruct (in_range lo m hi); [|discriminate].
    simpl in Hok. apply andb_true_iff in Hok. destruct Hok as [H1 H2].
    destruct (mul_keys m keys s) as [u|] eqn:E; [|discriminate]. inversion H; subst.
    destruct (mul_keys_Rel N m keys s s' u HR H1 E) as (u' & M1 & M2). rewrite M1.
    eexists; split; [reflexivity|apply mul_keys_try_Rel; assumption].
Qed.

Lemma run_ovrs_Rel : forall N o L s s' t, Rel N s s' -> forallb (ov_reads_ok N) L = true -> run_ovrs o s L = Ok t ->
  exists t', run_ovrs o s' L = Ok t' /\ Rel N t t'.
Proof.
  induction L as [|ov L IH]; simpl; intros s s' t HR Hok H.
  - inversion H; subst. exists s'; split; [reflexivity|exact HR].
  - apply andb_true_iff in Hok. destruct Hok as [H1 H2].
    destruct (run_ovr o s ov) as [u|] eqn:E; [|discriminate].
    destruct (run_ovr_Rel N o ov s s' u HR H1 E) as (u' & M1 & M2). rewrite M1. eapply IH; eauto.
Qed.

(* ---- an override that does not name Kc leaves its value alone *)
Definition ov_avoids (Kc : string) (ov : ovr) : bool :=
  match ov with
  | OvSubstr pat _ _ => negb (contains pat Kc)
  | OvSet key _ _ => negb (String.eqb key Kc)
  | OvMul _ _ _ keys trys => negb (str_mem Kc keys) && negb (str_mem Kc trys)
  end.

Lemma write_top_keeps : forall Kc k v s, nodot Kc = true -> k <> Kc ->
  lookup Kc (consts (write_top k v s)) = lookup Kc (consts s).
Proof.
  intros Kc k v s Hd Hne. rewrite lookup_write_top.
  destruct (String.eqb_spec Kc k) as [->|_]; [contradiction|]. rewrite (nodot_not_child k Kc Hd). reflexivity.
Qed.

Lemma ov_substr_keeps : forall Kc pat suf i o s t, nodot Kc = true -> contains pat Kc = false ->
  ov_substr pat suf i o s = Ok t -> lookup Kc (consts t) = lookup Kc (consts s).
Proof.
  induction o as [|[k v] o IH]; simpl; intros s t Hd Hc H; [inversion H; reflexivity|].
  destruct (contains pat k) eqn:Ck; [|eapply IH; eauto].
  destruct (if i then to_int v else to_float v) as [x|]; [|discriminate].
  rewrite (IH _ _ Hd Hc H). apply write_top_keeps; [exact Hd|].
  intro Heq. rewrite <- Heq, (contains_app _ _ suf Ck) in Hc. discriminate.
Qed.

Lemma str_mem_false_neq : forall k l x, str_mem k l = false -> In x l -> x <> k.
Proof.
  intros k l x H Hin Heq; subst. assert (T : str_mem k l = true) by (apply str_mem_In; exact Hin).
  rewrite T in H; discriminate.
Qed.

Lemma mul_key_keeps : forall Kc m k s t, k <> Kc -> mul_key m k s = Ok t -> lookup Kc (consts t) = lookup Kc (consts s).
Proof.
  intros Kc m k s t Hne H. unfold mul_key in H. destruct (lookup k (consts s)) as [[x| | | | |]|]; try discriminate.
  inversion H; subst; simpl. apply lookup_set_assoc_other. intro E; apply Hne; symmetry; exact E.
Qed.

Lemma mul_keys_keeps : forall Kc m ks s t, str_mem Kc ks = false -> mul_keys m ks s = Ok t ->
  lookup Kc (consts t) = lookup Kc (consts s).
Proof.
  induction ks as [|k ks IH]; simpl; intros s t Hm H; [inversion H; reflexivity|].
  unfold str_mem in Hm; simpl in Hm. apply orb_false_iff in Hm. destruct Hm as [H1 H2].
  destruct (mul_key m k s) as [u|] eqn:E; [|discriminate].
  rewrite (IH _ _ H2 H). eapply mul_key_keeps; [|exact E]. intro Heq; subst. rewrite String.eqb_refl in H1; discriminate.
Qed.

Lemma mul_keys_try_keeps : forall Kc m ks s, str_mem Kc ks = false ->
  lookup Kc (consts (mul_keys_try m ks s)) = lookup Kc (consts s).
Proof.
  induction ks as [|k ks IH]; simpl; intros s Hm; [reflexivity|].
  unfold str_mem in Hm; simpl in Hm. apply orb_false_iff in Hm. destruct Hm as [H1 H2].
  destruct (mul_key m k s) as [u|] eqn:E; [|reflexivity].
  rewrite (IH _ H2). eapply mul_key_keeps; [|exact E]. intro Heq; subst. rewrite String.eqb_refl in H1; discriminate.
Qed.

Lemma run_ovr_keeps : forall Kc o ov s t, nodot Kc = true -> ov_avoids Kc ov = true -> run_ovr o s ov = Ok t ->
  lookup Kc (consts t) = lookup Kc (consts s).
Proof.
  intros Kc o ov s t Hd Ha H. destruct ov as [pat suf i|key lo hi|optkey lo hi keys try_keys]; cbn [run_ovr] in H; simpl in Ha.
  - apply negb_true_iff in Ha. exact (ov_substr_keeps Kc pat suf i o s t Hd Ha H).
  - destruct (lookup key o) as [v|]; [|inversion H; reflexivity].
    destruct (to_float v) as [x|]; [|discriminate]. rewrite write_consts_top in H.
    destruct (in_range lo x hi); [|discriminate]. inversion H; subst.
    apply write_top_keeps; [exact Hd|]. apply negb_true_iff in Ha. intro E; subst. rewrite String.eqb_refl in Ha; discriminate.
  - destruct (lookup optkey o) as [v|]; [|inversion H; reflexivity].
    destruct (to_float v) as [m|]; [|discriminate]. destruct (in_range lo m hi); [|discriminate].
    apply andb_true_iff in Ha. destruct Ha as [A1 A2]. apply negb_true_iff in A1. apply negb_true_iff in A2.
    destruct (mul_keys m keys s) as [u|] eqn:E; [|discriminate]. inversion H; subst.
    rewrite (mul_keys_try_keeps _ _ _ _ A2). exact (mul_keys_keeps Kc m keys s u A1 E).
Qed.

Lemma run_ovrs_keeps : forall Kc o L s t, nodot Kc = true -> forallb (ov_avoids Kc) L = true -> run_ovrs o s L = Ok t ->
  lookup Kc (consts t) = lookup Kc (consts s).
Proof.
  induction L as [|ov L IH]; simpl; intros s t Hd Ha H; [inversion H; reflexivity|].
  apply andb_true_iff in Ha. destruct Ha as [A1 A2]. destruct (run_ovr o s ov) as [u|] eqn:E; [|discriminate].
  rewrite (IH _ _ Hd A2 H). eapply run_ovr_keeps; eauto.
Qed.

(* ---- the run with one extra option = the base run with the extra's own step interleaved *)
Lemma ov_substr_app : forall pat suf i a b s,
  ov_substr pat suf i (a ++ b)%list s = match ov_substr pat suf i a s with Ok t => ov_substr pat suf i b t | rej => rej end.
Proof.
  induction a as [|[k v] a IH]; simpl; intros b s; [reflexivity|].
  destruct (contains pat k); [|apply IH].
  destruct (if i then to_int v else to_float v); [apply IH|reflexivity].
Qed.

Lemma run_ovr_app : forall o K v s ov, lookup K o = None ->
  run_ovr (o ++ [(K, v)])%list s ov = match run_ovr o s ov with Ok t => run_ovr [(K, v)] t ov | rej => rej end.
Proof.
  intros o K v s ov HK. destruct ov as [pat suf i|key lo hi|okey lo hi keys trys]; cbn [run_ovr].
  - apply ov_substr_app.
  - rewrite lookup_app. destruct (lookup key o) as [x|] eqn:E; [|reflexivity].
    assert (Hk : String.eqb key K = false).
    { destruct (String.eqb_spec key K) as [->|]; [rewrite HK in E; discriminate|reflexivity]. }
    cbn [lookup]. rewrite Hk.
    destruct (to_float x); [|reflexivity]. rewrite write_consts_top. destruct (in_range lo q hi); reflexivity.
  - rewrite lookup_app. destruct (lookup okey o) as [x|] eqn:E; [|reflexivity].
    assert (Hk : String.eqb okey K = false).
    { destruct (String.eqb_spec okey K) as [->|]; [rewrite HK in E; discriminate|reflexivity]. }
    cbn [lookup]. rewrite Hk.
    destruct (to_float x); [|reflexivity]. destruct (in_range lo q hi); [|reflexivity].
    destruct (mul_keys q keys s); reflexivity.
Qed.

Definition inert (K : string) (ov : ovr) : bool :=
  match ov with
  | OvSubstr pat _ _ => negb (contains pat K)
  | OvSet key _ _ => negb (String.eqb key K)
  | OvMul okey _ _ _ _ => negb (String.eqb okey K)
  end.

Lemma inert_single : forall K v ov t, inert K ov = true -> run_ovr [(K, v)] t ov = Ok t.
Proof.
  intros K v ov t H. destruct ov as [pat suf i|key lo hi|okey lo hi keys trys]; simpl in H; apply negb_true_iff in H;
    cbn [run_ovr ov_substr lookup]; rewrite H; reflexivity.
Qed.

Lemma inert_run : forall o K v L s, lookup K o = None -> forallb (inert K) L = true ->
  run_ovrs (o ++ [(K, v)])%list s L = run_ovrs o s L.
Proof.
  induction L as [|ov L IH]; simpl; intros s HK Hi; [reflexivity|].
  apply andb_true_iff in Hi. destruct Hi as [H1 H2]. rewrite run_ovr_app by exact HK.
  destruct (run_ovr o s ov) as [t|]; [|reflexivity]. rewrite (inert_single K v ov t H1). apply IH; assumption.
Qed.

Lemma run_ovrs_app : forall o A B s,
  run_ovrs o s (A ++ B)%list = match run_ovrs o s A with Ok t => run_ovrs o t B | rej => rej end.
Proof.
  induction A as [|ov A IH]; simpl; intros B s; [reflexivity|].
  destruct (run_ovr o s ov); [apply IH|reflexivity].
Qed.

(* one extra option whose own step is a single top-level write *)
Lemma ovrs_simple : forall o K v L1 ovx L2 Kc x s t,
  lookup K o = None ->
  forallb (inert K) L1 = true -> forallb (inert K) L2 = true ->
  (forall u, run_ovr [(K, v)] u ovx = Ok (write_top Kc (VNum x) u)) ->
  nodot Kc = true -> forallb (ov_avoids Kc) L2 = true -> forallb (ov_reads_ok (Nof Kc)) L2 = true ->
  run_ovrs o s (L1 ++ ovx :: L2)%list = Ok t ->
  exists t', run_ovrs (o ++ [(K, v)])%list s (L1 ++ ovx :: L2)%list = Ok t' /\ Rel (Nof Kc) t t' /\
             lookup Kc (consts t') = Some (VNum x).
Proof.
  intros o K v L1 ovx L2 Kc x s t HK I1 I2 HX Hd Ha Hr H.
  rewrite run_ovrs_app in H. destruct (run_ovrs o s L1) as [sa|] eqn:E1; [|discriminate].
  cbn [run_ovrs] in H. destruct (run_ovr o sa ovx) as [sb|] eqn:E2; [|discriminate].
  rewrite run_ovrs_app, (inert_run o K v L1 s HK I1), E1. cbn [run_ovrs].
  rewrite (run_ovr_app o K v sa ovx HK), E2, HX, (inert_run o K v L2 _ HK I2).
  destruct (run_ovrs_Rel (Nof Kc) o L2 sb (write_top Kc (VNum x) sb) t (write_top_Nof Kc (VNum x) sb) Hr H) as (t' & R1 & R2).
  exists t'. split; [exact R1|]. split; [exact R2|].
  rewrite (run_ovrs_keeps Kc o L2 _ t' Hd Ha R1), lookup_write_top, String.eqb_refl. reflexivity.
Qed.

(* one extra option whose own step is rejected whatever the state *)
Lemma ovrs_reject : forall o K v L1 ovx L2 kd s t,
  lookup K o = None -> forallb (inert K) L1 = true ->
  (forall u, exists u', run_ovr [(K, v)] u ovx = Rej kd u') ->
  run_ovrs o s (L1 ++ ovx :: L2)%list = Ok t ->
  exists u, run_ovrs (o ++ [(K, v)])%list s (L1 ++ ovx :: L2)%list = Rej kd u.
Proof.
  intros o K v L1 ovx L2 kd s t HK I1 HX H.
  rewrite run_ovrs_app in H. destruct (run_ovrs o s L1) as [sa|] eqn:E1; [|discriminate].
  cbn [run_ovrs] in H. destruct (run_ovr o sa ovx) as [sb|] eqn:E2; [|discriminate].
  rewrite run_ovrs_app, (inert_run o K v L1 s HK I1), E1. cbn [run_ovrs].
  rewrite (run_ovr_app o K v sa ovx HK), E2. destruct (HX sb) as (u' & Hu). rewrite Hu. exists u'; reflexivity.
Qed.

(* ---- multipliers *)
Lemma Rel_trans : forall N a b c, Rel N a b -> Rel N b c -> Rel N a c.
Proof.
  intros N a b c (A1 & A2 & A3 & A4 & A5) (B1 & B2 & B3 & B4 & B5).
  repeat split; try congruence. intros k Hk. rewrite (B5 k Hk). apply A5; exact Hk.
Qed.

Lemma mul_key_N : forall (N : string -> bool) m k s t, N k = true -> mul_key m k s = Ok t -> Rel N s t.
Proof.
  intros N m k s t Hk H. unfold mul_key in H. destruct (lookup k (consts s)) as [[x| | | | |]|]; try discriminate.
  inversion H; subst. repeat split. simpl. intros k' Hk'. apply lookup_set_assoc_other. intro E; subst. congruence.
Qed.

Lemma mul_keys_N : forall (N : string -> bool) m ks s t, forallb N ks = true -> mul_keys m ks s = Ok t -> Rel N s t.
Proof.
  induction ks as [|k ks IH]; simpl; intros s t Hn H; [inversion H; apply Rel_refl|].
  apply andb_true_iff in Hn. destruct Hn as [H1 H2]. destruct (mul_key m k s) as [u|] eqn:E; [|discriminate].
  eapply Rel_trans; [eapply mul_key_N; eauto|eapply IH; eauto].
Qed.

Lemma mul_keys_try_N : forall (N : string -> bool) m ks s, forallb N ks = true -> Rel N s (mul_keys_try m ks s).
Proof.
  induction ks as [|k ks IH]; simpl; intros s Hn; [apply Rel_refl|].
  apply andb_true_iff in Hn. destruct Hn as [H1 H2]. destruct (mul_key m k s) as [u|] eqn:E; [|apply Rel_refl].
  eapply Rel_trans; [eapply mul_key_N; eauto|apply IH; exact H2].
Qed.

Definition numeric_at (s : lstate) (k : string) : Prop := exists x, lookup k (consts s) = Some (VNum x).

Lemma mul_keys_numeric : forall m ks s, (forall k, In k ks -> numeric_at s k) -> exists t, mul_keys m ks s = Ok t.
Proof.
  induction ks as [|k ks IH]; simpl; intros s Hn; [eexists; reflexivity|].
  destruct (Hn k (or_introl eq_refl)) as (x & Hx). unfold mul_key. rewrite Hx. apply IH.
  intros k' Hk'. destruct (Hn k' (or_intror Hk')) as (x' & Hx'). unfold numeric_at; simpl.
  destruct (String.eqb_spec k' k) as [->|Hne].
  - rewrite lookup_set_assoc_same. eexists; reflexivity.
  - rewrite lookup_set_assoc_other by exact Hne. exists x'; exact Hx'.
Qed.

Definition Nlist (l : list string) (k : string) : bool := str_mem k l.

Lemma ovrs_mul : forall o K m lo hi keys trys L1 L2 s t,
  lookup K o = None ->
  forallb (inert K) L1 = true -> forallb (inert K) L2 = true ->
  in_range lo m hi = true ->
  forallb nodot keys = true -> forallb (fun k => forallb (ov_avoids k) L2) keys = true ->
  forallb (ov_reads_ok (Nlist (keys ++ trys))) L2 = true ->
  (forall k, In k keys -> numeric_at t k) ->
  run_ovrs o s (L1 ++ OvMul K lo hi keys trys :: L2)%list = Ok t ->
  exists t', run_ovrs (o ++ [(K, ONum m)])%list s (L1 ++ OvMul K lo hi keys trys :: L2)%list = Ok t' /\
             Rel (Nlist (keys ++ trys)) t t'.
Proof.
  intros o K m lo hi keys trys L1 L2 s t HK I1 I2 Hin Hd Ha Hr Hnum H.
  rewrite run_ovrs_app in H. destruct (run_ovrs o s L1) as [sa|] eqn:E1; [|discriminate].
  cbn [run_ovrs] in H. destruct (run_ovr o sa (OvMul K lo hi keys trys)) as [sb|] eqn:E2; [|discriminate].
  rewrite run_ovrs_app, (inert_run o K (ONum m) L1 s HK I1), E1. cbn [run_ovrs].
  rewrite (run_ovr_app o K (ONum m) sa _ HK), E2. cbn [run_ovr lookup]. rewrite String.eqb_refl. cbn [to_float]. rewrite Hin.
  assert (Hnb : forall k, In k keys -> numeric_at sb k).
  { intros k Hk. destruct (Hnum k Hk) as (x & Hx). exists x. rewrite <- Hx. symmetry.
    rewrite forallb_forall in Hd, Ha. eapply run_ovrs_keeps; [apply Hd; exact Hk|apply Ha; exact Hk|exact H]. }
  destruct (mul_keys_numeric m keys sb Hnb) as (u1 & Eu). rewrite Eu.
  assert (Hall : forall l, (forall k, In k l -> In k (keys ++ trys)%list) -> forallb (Nlist (keys ++ trys)) l = true).
  { intros l Hl. apply forallb_forall. intros k Hk. unfold Nlist. apply str_mem_In. apply Hl; exact Hk. }
  assert (RX : Rel (Nlist (keys ++ trys)) sb (mul_keys_try m trys u1)).
  { eapply Rel_trans; [eapply mul_keys_N; [|exact Eu]|apply mul_keys_try_N].
    - apply Hall. intros k Hk. apply in_or_app; left; exact Hk.
    - apply Hall. intros k Hk. apply in_or_app; right; exact Hk. }
  rewrite (inert_run o K (ONum m) L2 _ HK I2).
  destruct (run_ovrs_Rel _ o L2 sb _ t RX Hr H) as (t' & R1 & R2). exists t'; split; assumption.
Qed.

(* ---- the part of dispatch that precedes the overrides does not look at an extra key it never reads *)
Definition step_key (st : dstep) : string := match st with DChain k _ => k | DCopyOpt _ ok => ok end.
Definition dispatch_reads : list string :=
  (required_keys ++ map step_key dispatch_steps ++ flat_map (fun f => map fst (f_conds f)) failing_scenarios)%list.

Lemma lookup_extra : forall A k K (v : A) o, k <> K -> lookup k (o ++ [(K, v)])%list = lookup k o.
Proof.
  intros A k K v o Hne. rewrite lookup_app. destruct (lookup k o); [reflexivity|].
  cbn [lookup]. destruct (String.eqb_spec k K); [contradiction|reflexivity].
Qed.

Lemma has_key_extra : forall A k K (v : A) o, k <> K -> has_key k (o ++ [(K, v)])%list = has_key k o.
Proof. intros; unfold has_key; rewrite lookup_extra by assumption; reflexivity. Qed.

Lemma forallb_ext_in : forall A (f g : A -> bool) l, (forall x, In x l -> f x = g x) -> forallb f l = forallb g l.
Proof.
  induction l as [|a l IH]; simpl; intro H; [reflexivity|].
  rewrite (H a (or_introl eq_refl)), IH; [reflexivity|]. intros x Hx; apply H; right; exact Hx.
Qed.

Lemma set_assoc_app : forall A k (v : A) a b, has_key k a = true -> set_assoc k v (a ++ b)%list = (set_assoc k v a ++ b)%list.
Proof.
  induction a as [|[x y] a IH]; intros b H; [discriminate|]. unfold has_key in H. simpl in H. simpl.
  destruct (String.eqb k x); [reflexivity|]. simpl. f_equal. apply IH. exact H.
Qed.

Lemma alter_extra : forall fs o K v iso,
  (forall f c, In f fs -> In c (f_conds f) -> fst c <> K) -> forallb failing_wf fs = true ->
  alter fs (o ++ [(K, v)])%list iso = match alter fs o iso with AOk o' => AOk (o' ++ [(K, v)])%list | ARej k => ARej k end.
Proof.
  induction fs as [|f fs IH]; simpl; intros o K v iso Hne Hwf; [reflexivity|].
  apply andb_true_iff in Hwf. destruct Hwf as [W1 W2].
  assert (E1 : forallb (fun c => has_key (fst c) (o ++ [(K, v)])%list) (f_conds f) = forallb (fun c => has_key (fst c) o) (f_conds f)).
  { apply forallb_ext_in. intros c Hc. apply has_key_extra. eapply Hne; [left; reflexivity|exact Hc]. }
  assert (E2 : forallb (cond_matches (o ++ [(K, v)])%list) (f_conds f) = forallb (cond_matches o) (f_conds f)).
  { apply forallb_ext_in. intros c Hc. unfold cond_matches. rewrite lookup_extra; [reflexivity|].
    eapply Hne; [left; reflexivity|exact Hc]. }
  rewrite E1, E2. destruct (forallb (fun c => has_key (fst c) o) (f_conds f)) eqn:Eh; simpl; [|reflexivity].
  destruct (forallb (cond_matches o) (f_conds f) && value_is_str iso (f_code f)).
  - f_equal. apply set_assoc_app. unfold failing_wf in W1.
    destruct (lookup (fst (f_corr f)) (f_conds f)) as [vals|] eqn:El; [|discriminate].
    rewrite forallb_forall in Eh. exact (Eh _ (lookup_In _ _ _ El)).
  - apply IH; [|exact W2]. intros g c Hg Hc. eapply Hne; [right; exact Hg|exact Hc].
Qed.

Lemma run_steps_extra : forall o K v r L s, (forall st, In st L -> step_key st <> K) ->
  run_steps (o ++ [(K, v)])%list r s L = run_steps o r s L.
Proof.
  induction L as [|st L IH]; simpl; intros s Hne; [reflexivity|].
  assert (E : run_step (o ++ [(K, v)])%list r s st = run_step o r s st).
  { destruct st; simpl; rewrite lookup_extra; try reflexivity; apply (Hne _ (or_introl eq_refl)). }
  rewrite E. destruct (run_step o r s st); [|reflexivity]. apply IH. intros st' H'; apply Hne; right; exact H'.
Qed.

Lemma dispatch_extend : forall opts r K v s, dispatch opts r = DOk s -> lookup K opts = None ->
  str_mem K dispatch_reads = false ->
  exists o' s1, lookup K o' = None /\ run_ovrs o' s1 overrides = Ok s /\
    dispatch (opts ++ [(K, v)])%list r =
    match run_ovrs (o' ++ [(K, v)])%list s1 overrides with Ok s' => DOk s' | Rej k _ => DRej k end.
Proof.
  intros opts r K v s H HK Hr.
  assert (R1 : forall k, In k required_keys -> k <> K).
  { intros k Hk. eapply str_mem_false_neq; [exact Hr|]. unfold dispatch_reads. apply in_or_app; left; exact Hk. }
  assert (R2 : forall st, In st dispatch_steps -> step_key st <> K).
  { intros st Hs. eapply str_mem_false_neq; [exact Hr|]. unfold dispatch_reads. apply in_or_app; right. apply in_or_app; left.
    apply in_map; exact Hs. }
  assert (R3 : forall f c, In f failing_scenarios -> In c (f_conds f) -> fst c <> K).
  { intros f c Hf Hc. eapply str_mem_false_neq; [exact Hr|]. unfold dispatch_reads. apply in_or_app; right. apply in_or_app; right.
    apply in_flat_map. exists f; split; [exact Hf|apply in_map; exact Hc]. }
  unfold dispatch in *.
  rewrite (forallb_ext_in _ (fun k => has_key k (opts ++ [(K, v)])%list) (fun k => has_key k opts) required_keys)
    by (intros k Hk; apply has_key_extra; apply R1; exact Hk).
  destruct (negb (forallb (fun k => has_key k opts) required_keys)); [discriminate|].
  destruct (iso3_of r) as [iso|]; [|discriminate].
  rewrite (alter_extra failing_scenarios opts K v iso R3 failing_wf_ok).
  destruct (alter failing_scenarios opts iso) as [o'|] eqn:Ea; [|discriminate].
  rewrite (run_steps_extra o' K v r dispatch_steps init_state R2).
  destruct (run_steps o' r init_state dispatch_steps) as [s1|] eqn:E1; [|discriminate].
  destruct (run_ovrs o' s1 overrides) as [s2|] eqn:E2; [|discriminate]. inversion H; subst s2.
  exists o', s1. split; [|split; [exact E2|reflexivity]].
  destruct (alter_lookup _ _ _ _ K Ea) as [L|(f & Hf & Hk & _)]; [rewrite L; exact HK|].
  exfalso. pose proof failing_wf_ok as W. rewrite forallb_forall in W. specialize (W f Hf). unfold failing_wf in W.
  rewrite <- Hk in W. destruct (lookup K (f_conds f)) as [vals|] eqn:El; [|discriminate].
  exact (R3 f (K, vals) Hf (lookup_In _ _ _ El) eq_refl).
Qed.

(* ---- where in the generated override list the extra key takes effect *)
Fixpoint split_trigger (K : string) (L : list ovr) : option (list ovr * ovr * list ovr) :=
  match L with
  | [] => None
  | ov :: L' =>
    if inert K ov then match split_trigger K L' with Some (a, x, b) => Some (ov :: a, x, b) | None => None end
    else Some ([], ov, L')
  end.

Lemma split_trigger_spec : forall K L a x b, split_trigger K L = Some (a, x, b) ->
  L = (a ++ x :: b)%list /\ forallb (inert K) a = true.
Proof.
  induction L as [|ov L IH]; simpl; intros a x b H; [discriminate|].
  destruct (inert K ov) eqn:Ei.
  - destruct (split_trigger K L) as [[[a' x'] b']|]; [|discriminate]. inversion H; subst.
    destruct (IH a' x b eq_refl) as [E1 E2]. split; [simpl; f_equal; exact E1|simpl; rewrite Ei; exact E2].
  - inversion H; subst. split; reflexivity.
Qed.

Definition simple_value (ovx : ovr) (q : Q) : Q := match ovx with OvSubstr _ _ true => Qtrunc q | _ => q end.
Definition simple_ok (ovx : ovr) (q : Q) : bool := match ovx with OvSet _ lo hi => in_range lo q hi | _ => true end.

(* certificate, evaluated on the generated tables, that option K is a "single top-level write of Kc" override *)
Definition simple_cert (K Kc : string) : bool :=
  negb (str_mem K dispatch_reads) && nodot Kc &&
  match split_trigger K overrides with
  | Some (_, ovx, L2) =>
    forallb (inert K) L2 && forallb (ov_avoids Kc) L2 && forallb (ov_reads_ok (Nof Kc)) L2 &&
    match ovx with
    | OvSubstr pat suf _ => contains pat K && String.eqb Kc (K ++ suf)
    | OvSet key _ _ => String.eqb key K && String.eqb Kc K
    | OvMul _ _ _ _ _ => false
    end
  | None => false
  end.

Definition trigger_of (K : string) : option ovr :=
  match split_trigger K overrides with Some (_, ovx, _) => Some ovx | None => None end.

Lemma simple_step : forall K Kc ovx q,
  match ovx with
  | OvSubstr pat suf _ => contains pat K && String.eqb Kc (K ++ suf)
  | OvSet key _ _ => String.eqb key K && String.eqb Kc K
  | OvMul _ _ _ _ _ => false
  end = true ->
  if simple_ok ovx q
  then forall u, run_ovr [(K, ONum q)] u ovx = Ok (write_top Kc (VNum (simple_value ovx q)) u)
  else forall u, exists u', run_ovr [(K, ONum q)] u ovx = Rej AssertRejected u'.
Proof.
  intros K Kc ovx q H. destruct ovx as [pat suf i|key lo hi|]; [| |discriminate]; apply andb_true_iff in H; destruct H as [H1 H2];
    apply String.eqb_eq in H2; subst Kc.
  - cbn [simple_ok]. intro u. cbn [run_ovr ov_substr]. rewrite H1. destruct i; reflexivity.
  - apply String.eqb_eq in H1; subst key. cbn [simple_ok simple_value].
    destruct (in_range lo q hi) eqn:Er; intro u; cbn [run_ovr lookup]; rewrite String.eqb_refl; cbn [to_float];
      rewrite write_consts_top, Er; [reflexivity|eexists; reflexivity].
Qed.

Lemma simple_frame : forall K Kc ovx, simple_cert K Kc = true -> trigger_of K = Some ovx ->
  forall opts r s q, dispatch opts r = DOk s -> lookup K opts = None ->
  if simple_ok ovx q
  then exists s', dispatch (opts ++ [(K, ONum q)])%list r = DOk s' /\ Rel (Nof Kc) s s' /\
                  lookup Kc (consts s') = Some (VNum (simple_value ovx q))
  else dispatch (opts ++ [(K, ONum q)])%list r = DRej AssertRejected.
Proof.
  intros K Kc ovx Hc Ht opts r s q H HK. unfold simple_cert in Hc. unfold trigger_of in Ht.
  destruct (split_trigger K overrides) as [[[L1 ovx'] L2]|] eqn:Es; [|discriminate]. inversion Ht; subst ovx'.
  destruct (split_trigger_spec _ _ _ _ _ Es) as [EL I1].
  apply andb_true_iff in Hc. destruct Hc as [Hc C5]. apply andb_true_iff in Hc. destruct Hc as [C0 Cd].
  apply andb_true_iff in C5. destruct C5 as [C5 Cx]. apply andb_true_iff in C5. destruct C5 as [C5 Cr].
  apply andb_true_iff in C5. destruct C5 as [Ci Ca]. apply negb_true_iff in C0.
  destruct (dispatch_extend opts r K (ONum q) s H HK C0) as (o' & s1 & HK' & Hrun & Hd). rewrite Hd. rewrite EL in *.
  pose proof (simple_step K Kc ovx q Cx) as HX. destruct (simple_ok ovx q).
  - destruct (ovrs_simple o' K (ONum q) L1 ovx L2 Kc _ s1 s HK' I1 Ci HX Cd Ca Cr Hrun) as (t' & R1 & R2 & R3).
    rewrite R1. exists t'; split; [reflexivity|split; [exact R2|exact R3]].
  - destruct (ovrs_reject o' K (ONum q) L1 ovx L2 AssertRejected s1 s HK' I1 HX Hrun) as (u & Hu). rewrite Hu. reflexivity.
Qed.

(* ---- multipliers: values *)
Fixpoint nodupb (l : list string) : bool :=
  match l with [] => true | a :: l' => negb (str_mem a l') && nodupb l' end.

Lemma mul_keys_value : forall m ks s t, nodupb ks = true -> mul_keys m ks s = Ok t ->
  forall k x, In k ks -> lookup k (consts s) = Some (VNum x) -> lookup k (consts t) = Some (VNum (x * m)).
Proof.
  induction ks as [|k0 ks IH]; simpl; intros s t Hn H k x Hin Hx; [contradiction|].
  apply andb_true_iff in Hn. destruct Hn as [N1 N2]. apply negb_true_iff in N1.
  destruct (mul_key m k0 s) as [u|] eqn:E; [|discriminate].
  destruct Hin as [->|Hin].
  - rewrite (mul_keys_keeps k m ks u t N1 H). unfold mul_key in E. rewrite Hx in E. inversion E; subst; simpl.
    apply lookup_set_assoc_same.
  - apply (IH u t N2 H k x Hin). rewrite <- Hx. eapply mul_key_keeps; [|exact E].
    intro Heq; subst. assert (T : str_mem k ks = true) by (apply str_mem_In; exact Hin). rewrite T in N1; discriminate.
Qed.

Lemma ovrs_mul_value : forall o K m lo hi keys trys L1 L2 s t t',
  lookup K o = None ->
  forallb (inert K) L1 = true -> forallb (inert K) L2 = true ->
  in_range lo m hi = true ->
  forallb nodot keys = true -> forallb (fun k => forallb (ov_avoids k) L2) keys = true ->
  nodupb keys = true -> forallb (fun k => negb (str_mem k trys)) keys = true ->
  run_ovrs o s (L1 ++ OvMul K lo hi keys trys :: L2)%list = Ok t ->
  run_ovrs (o ++ [(K, ONum m)])%list s (L1 ++ OvMul K lo hi keys trys :: L2)%list = Ok t' ->
  forall k x, In k keys -> lookup k (consts t) = Some (VNum x) -> lookup k (consts t') = Some (VNum (x * m)).
Proof.
  intros o K m lo hi keys trys L1 L2 s t t' HK I1 I2 Hin Hd Ha Hnd Hdis H H' k x Hk Hx.
  rewrite run_ovrs_app in H. destruct (run_ovrs o s L1) as [sa|] eqn:E1; [|discriminate].
  cbn [run_ovrs] in H. destruct (run_ovr o sa (OvMul K lo hi keys trys)) as [sb|] eqn:E2; [|discriminate].
  rewrite run_ovrs_app, (inert_run o K (ONum m) L1 s HK I1), E1 in H'. cbn [run_ovrs] in H'.
  rewrite (run_ovr_app o K (ONum m) sa _ HK), E2 in H'. cbn [run_ovr lookup] in H'. rewrite String.eqb_refl in H'.
  cbn [to_float] in H'. rewrite Hin in H'.
  destruct (mul_keys m keys sb) as [u1|] eqn:Eu; [|discriminate].
  rewrite (inert_run o K (ONum m) L2 _ HK I2) in H'.
  rewrite forallb_forall in Hd, Ha, Hdis.
  rewrite (run_ovrs_keeps k o L2 _ t' (Hd k Hk) (Ha k Hk) H').
  assert (Ht : str_mem k trys = false) by (apply negb_true_iff; apply Hdis; exact Hk).
  rewrite (mul_keys_try_keeps k m trys u1 Ht).
  apply (mul_keys_value m keys sb u1 Hnd Eu k x Hk).
  rewrite <- Hx. symmetry. exact (run_ovrs_keeps k o L2 sb t (Hd k Hk) (Ha k Hk) H).
Qed.

Definition mul_cert (K : string) : bool :=
  negb (str_mem K dispatch_reads) &&
  match split_trigger K overrides with
  | Some (_, OvMul okey _ _ keys trys, L2) =>
    String.eqb okey K && forallb (inert K) L2 && forallb nodot keys &&
    forallb (fun k => forallb (ov_avoids k) L2) keys && forallb (ov_reads_ok (Nlist (keys ++ trys))) L2 &&
    nodupb keys && forallb (fun k => negb (str_mem k trys)) keys
  | _ => false
  end.

Lemma mul_frame : forall K okey lo hi keys trys, mul_cert K = true -> trigger_of K = Some (OvMul okey lo hi keys trys) ->
  forall opts r s m, dispatch opts r = DOk s -> lookup K opts = None ->
  if in_range lo m hi
  then (forall k, In k keys -> numeric_at s k) ->
       exists s', dispatch (opts ++ [(K, ONum m)])%list r = DOk s' /\ Rel (Nlist (keys ++ trys)) s s' /\
                  forall k x, In k keys -> lookup k (consts s) = Some (VNum x) -> lookup k (consts s') = Some (VNum (x * m))
  else dispatch (opts ++ [(K, ONum m)])%list r = DRej AssertRejected.
Proof.
  intros K okey lo hi keys trys Hc Ht opts r s m H HK. unfold mul_cert in Hc. unfold trigger_of in Ht.
  destruct (split_trigger K overrides) as [[[L1 ovx'] L2]|] eqn:Es; [|discriminate]. inversion Ht; subst ovx'.
  destruct (split_trigger_spec _ _ _ _ _ Es) as [EL I1].
  apply andb_true_iff in Hc. destruct Hc as [C0 Hc]. apply negb_true_iff in C0.
  apply andb_true_iff in Hc. destruct Hc as [Hc Cdis]. apply andb_true_iff in Hc. destruct Hc as [Hc Cnd].
  apply andb_true_iff in Hc. destruct Hc as [Hc Cr]. apply andb_true_iff in Hc. destruct Hc as [Hc Ca].
  apply andb_true_iff in Hc. destruct Hc as [Hc Cd]. apply andb_true_iff in Hc. destruct Hc as [Ck Ci].
  apply String.eqb_eq in Ck; subst okey.
  destruct (dispatch_extend opts r K (ONum m) s H HK C0) as (o' & s1 & HK' & Hrun & Hd). rewrite Hd. rewrite EL in *.
  destruct (in_range lo m hi) eqn:Er.
  - intro Hnum.
    destruct (ovrs_mul o' K m lo hi keys trys L1 L2 s1 s HK' I1 Ci Er Cd Ca Cr Hnum Hrun) as (t' & R1 & R2).
    rewrite R1. exists t'. split; [reflexivity|split; [exact R2|]].
    exact (ovrs_mul_value o' K m lo hi keys trys L1 L2 s1 s t' HK' I1 Ci Er Cd Ca Cnd Cdis Hrun R1).
  - assert (HX : forall u, exists u', run_ovr [(K, ONum m)] u (OvMul K lo hi keys trys) = Rej AssertRejected u').
    { intro u. cbn [run_ovr lookup]. rewrite String.eqb_refl. cbn [to_float]. rewrite Er. eexists; reflexivity. }
    destruct (ovrs_reject o' K (ONum m) L1 _ L2 AssertRejected s1 s HK' I1 HX Hrun) as (u & Hu). rewrite Hu. reflexivity.
Qed.

(* ---- two single-write overrides that name different constants commute *)
Lemma simple_cert_nodot : forall K Kc, simple_cert K Kc = true -> nodot Kc = true.
Proof.
  intros K Kc H. unfold simple_cert in H. apply andb_true_iff in H. destruct H as [H _].
  apply andb_true_iff in H. destruct H as [_ H]. exact H.
Qed.

Definition same_shell (s s' : lstate) : Prop :=
  flags s' = flags s /\ is_global s' = is_global s /\ desc s' = desc s /\ tconsts s' = tconsts s.

Lemma simple_commute : forall K1 Kc1 ovx1 K2 Kc2 ovx2,
  simple_cert K1 Kc1 = true -> trigger_of K1 = Some ovx1 ->
  simple_cert K2 Kc2 = true -> trigger_of K2 = Some ovx2 ->
  K1 <> K2 -> Kc1 <> Kc2 ->
  forall opts r s q1 q2, dispatch opts r = DOk s -> lookup K1 opts = None -> lookup K2 opts = None ->
  simple_ok ovx1 q1 = true -> simple_ok ovx2 q2 = true ->
  exists s12 s21,
    dispatch ((opts ++ [(K1, ONum q1)]) ++ [(K2, ONum q2)])%list r = DOk s12 /\
    dispatch ((opts ++ [(K2, ONum q2)]) ++ [(K1, ONum q1)])%list r = DOk s21 /\
    same_shell s12 s21 /\
    forall k, prefix (Kc1 ++ ".") k = false -> prefix (Kc2 ++ ".") k = false ->
              lookup k (consts s12) = lookup k (consts s21).
Proof.
  intros K1 Kc1 ovx1 K2 Kc2 ovx2 C1 T1 C2 T2 HK HKc opts r s q1 q2 H L1 L2 O1 O2.
  pose proof (simple_frame K1 Kc1 ovx1 C1 T1 opts r s q1 H L1) as F1. rewrite O1 in F1. destruct F1 as (s1 & D1 & R1 & V1).
  pose proof (simple_frame K2 Kc2 ovx2 C2 T2 opts r s q2 H L2) as F2. rewrite O2 in F2. destruct F2 as (s2 & D2 & R2 & V2).
  assert (L2' : lookup K2 (opts ++ [(K1, ONum q1)])%list = None) by (rewrite lookup_extra; [exact L2|intro E; apply HK; symmetry; exact E]).
  assert (L1' : lookup K1 (opts ++ [(K2, ONum q2)])%list = None) by (rewrite lookup_extra; [exact L1|exact HK]).
  pose proof (simple_frame K2 Kc2 ovx2 C2 T2 _ r s1 q2 D1 L2') as F12. rewrite O2 in F12. destruct F12 as (s12 & D12 & R12 & V12).
  pose proof (simple_frame K1 Kc1 ovx1 C1 T1 _ r s2 q1 D2 L1') as F21. rewrite O1 in F21. destruct F21 as (s21 & D21 & R21 & V21).
  exists s12, s21. split; [exact D12|split; [exact D21|]].
  destruct R1 as (a1 & a2 & a3 & a4 & a5). destruct R2 as (b1 & b2 & b3 & b4 & b5).
  destruct R12 as (c1 & c2 & c3 & c4 & c5). destruct R21 as (d1 & d2 & d3 & d4 & d5).
  split; [repeat split; congruence|].
  pose proof (simple_cert_nodot _ _ C1) as N1. pose proof (simple_cert_nodot _ _ C2) as N2.
  intros k P1 P2.
  destruct (String.eqb_spec k Kc1) as [->|E1].
  - rewrite V21. rewrite c5; [exact V1|]. unfold Nof. rewrite (nodot_not_child Kc2 Kc1 N1).
    destruct (String.eqb_spec Kc1 Kc2); [contradiction|reflexivity].
  - destruct (String.eqb_spec k Kc2) as [->|E2].
    + rewrite V12. rewrite d5; [symmetry; exact V2|]. unfold Nof. rewrite (nodot_not_child Kc1 Kc2 N2).
      destruct (String.eqb_spec Kc2 Kc1) as [E|]; [exfalso; apply HKc; symmetry; exact E|reflexivity].
    + assert (M1 : Nof Kc1 k = false) by (unfold Nof; rewrite P1; destruct (String.eqb_spec k Kc1); [contradiction|reflexivity]).
      assert (M2 : Nof Kc2 k = false) by (unfold Nof; rewrite P2; destruct (String.eqb_spec k Kc2); [contradiction|reflexivity]).
      rewrite (c5 k M2), (a5 k M1), (d5 k M1), (b5 k M2). reflexivity.
Qed.

(* ---- certificates over the generated tables *)
Definition head_cert (c : string) : bool :=
  simple_cert c (c ++ "_start") && match trigger_of c with Some (OvSubstr _ _ true) => true | _ => false end.
Lemma head_certs : forallb head_cert species_head_columns = true.
Proof. vm_compute. reflexivity. Qed.
