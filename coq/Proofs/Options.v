(* Lemmas about Model/Options.v over the generated tables of Gen/Setters.v. *)
From Coq Require Import QArith List String Bool Arith ZArith Lia.
From Allfed Require Import Base.Dec Base.StrUtil Gen.Setters Model.Options.
Import ListNotations.
Open Scope Q_scope.
Open Scope string_scope.

(* ------------------------------------------------------------------ generic facts about the interpreter *)

Lemma str_mem_In : forall s l, str_mem s l = true <-> In s l.
Proof.
  intros s l; unfold str_mem; rewrite existsb_exists; split.
  - intros (x & Hx & He). apply String.eqb_eq in He; subst; assumption.
  - intro H; exists s; split; [assumption|apply String.eqb_refl].
Qed.

(* which components a statement may touch *)
Definition same_but_consts (s s' : lstate) : Prop :=
  flags s' = flags s /\ is_global s' = is_global s /\ desc s' = desc s /\ tconsts s' = tconsts s.

Lemma write_consts_flags : forall p k v s s', write_consts p k v s = Ok s' -> flags s' = flags s.
Proof.
  intros p k v s s'; unfold write_consts.
  destruct (String.eqb p ""); [intro H; inversion H; reflexivity|].
  destruct (lookup p (consts s)) as [[]|]; intro H; inversion H; reflexivity.
Qed.

Lemma write_consts_rej_same : forall p k v s kd s', write_consts p k v s = Rej kd s' -> s' = s.
Proof.
  intros p k v s kd s'; unfold write_consts.
  destruct (String.eqb p ""); [discriminate|].
  destruct (lookup p (consts s)) as [[]|]; intro H; inversion H; reflexivity.
Qed.

Lemma seaweed_cols_flags : forall pat dk cols s s', seaweed_cols pat dk cols s = Ok s' -> flags s' = flags s.
Proof.
  induction cols as [|[n v] t IH]; simpl; intros s s' H.
  - inversion H; reflexivity.
  - destruct (contains pat n); [|eauto].
    destruct (write_consts dk (replace_all pat "" n) v s) eqn:E; [|discriminate].
    rewrite (IH _ _ H). eapply write_consts_flags; eauto.
Qed.

(* flags only grow along successful statements *)
Lemma exec_stmt_flags_mono : forall r s st s', exec_stmt r s st = Ok s' -> forall f, In f (flags s) -> In f (flags s').
Proof.
  intros r s st s' H f Hf.
  destruct st; cbn [exec_stmt] in H.
  - inversion H; subst; exact Hf.
  - destruct (str_mem flag (flags s)); inversion H; subst; exact Hf.
  - inversion H; subst; simpl; right; exact Hf.
  - destruct (is_global s) as [b|]; [destruct (Bool.eqb b want)|]; inversion H; subst; exact Hf.
  - inversion H; subst; exact Hf.
  - inversion H; subst; exact Hf.
  - destruct (eval r (consts s) e); [|discriminate]. rewrite (write_consts_flags _ _ _ _ _ H); exact Hf.
  - destruct (eval r (consts s) e); inversion H; subst; exact Hf.
  - destruct (has_key key (consts s)); inversion H; subst; exact Hf.
  - destruct (eval r (consts s) e) as [[]|]; try discriminate.
    destruct (in_range lo q hi); inversion H; subst; exact Hf.
  - destruct (lookup key (consts s)) as [[]|]; try discriminate.
    destruct (approx_eq (qsum l) target); inversion H; subst; exact Hf.
  - destruct (lookup key (consts s)) as [[]|]; try discriminate.
    destruct (forallb _ _); [|discriminate]. destruct (Nat.leb n (List.length l)); inversion H; subst; exact Hf.
  - destruct (eval r (consts s) (ERow col)) as [[]|]; try discriminate; try (inversion H; subst; exact Hf).
    destruct (Qeq_bool q0 q); [|inversion H; subst; exact Hf].
    destruct (eval r (consts s) e); [|discriminate]. rewrite (write_consts_flags _ _ _ _ _ H); exact Hf.
  - destruct r as [cols|]; [|discriminate]. rewrite (seaweed_cols_flags _ _ _ _ _ H); exact Hf.
Qed.

Lemma exec_body_flags_mono : forall r b s s', exec_body r s b = Ok s' -> forall f, In f (flags s) -> In f (flags s').
Proof.
  induction b as [|st b IH]; simpl; intros s s' H f Hf.
  - inversion H; subst; exact Hf.
  - destruct (exec_stmt r s st) eqn:E; [|discriminate].
    eapply IH; [exact H|]. eapply exec_stmt_flags_mono; eauto.
Qed.

(* a body that contains SSetFlag f has f set after any successful run *)
Lemma exec_body_sets : forall r b s s' f, In (SSetFlag f) b -> exec_body r s b = Ok s' -> In f (flags s').
Proof.
  induction b as [|st b IH]; simpl; intros s s' f Hin H; [contradiction|].
  destruct (exec_stmt r s st) eqn:E; [|discriminate].
  destruct Hin as [->|Hin].
  - simpl in E. inversion E; subst. eapply exec_body_flags_mono; [exact H|simpl; left; reflexivity].
  - eapply IH; eauto.
Qed.

(* "the guard precedes the first effect": before SGuard f only description text and tests of
   IS_GLOBAL_ANALYSIS may occur (neither touches a dictionary or a flag) *)
Fixpoint guard_first (f : string) (b : list stmt) : bool :=
  match b with
  | SGuard g :: _ => String.eqb g f
  | SDesc _ :: b' => guard_first f b'
  | SAssertGlobal _ :: b' => guard_first f b'
  | _ => false
  end.

(* what a rejected second call may have changed: the description only *)
Definition only_desc_changed (s s' : lstate) : Prop :=
  flags s' = flags s /\ is_global s' = is_global s /\ consts s' = consts s /\ tconsts s' = tconsts s.

Lemma guard_first_rejects : forall r f b s, guard_first f b = true -> In f (flags s) ->
  exists k s', exec_body r s b = Rej k s' /\ only_desc_changed s s'.
Proof.
  induction b as [|st b IH]; simpl; intros s Hg Hf; [discriminate|].
  destruct st; try discriminate.
  - (* SDesc *) simpl.
    destruct (IH (with_desc s (desc s ++ s0)) Hg Hf) as (k & s' & E & (A & B & C & D)).
    exists k, s'; split; [exact E|]. repeat split; assumption.
  - (* SGuard *) apply String.eqb_eq in Hg; subst flag. simpl.
    assert (M : str_mem f (flags s) = true) by (apply str_mem_In; exact Hf). rewrite M.
    exists AssertRejected, s; split; [reflexivity|repeat split].
  - (* SAssertGlobal *) simpl. destruct (is_global s) as [g|].
    + destruct (Bool.eqb g want).
      * apply IH; assumption.
      * exists AssertRejected, s; split; [reflexivity|repeat split].
    + exists TypeRejected, s; split; [reflexivity|repeat split].
Qed.

(* ------------------------------------------------------------------ checked facts about the generated table *)

Definition setter_ok (x : setter) : bool :=
  match family x with
  | Some f => guard_first f (s_body x) && existsb (fun st => match st with SSetFlag g => String.eqb g f | _ => false end) (s_body x)
  | None => false
  end.

Lemma all_setters_ok : forallb setter_ok setters = true.
Proof. vm_compute. reflexivity. Qed.

Lemma setter_ok_spec : forall x, In x setters ->
  exists f, family x = Some f /\ guard_first f (s_body x) = true /\ In (SSetFlag f) (s_body x).
Proof.
  intros x Hx. pose proof all_setters_ok as H. rewrite forallb_forall in H. specialize (H x Hx).
  unfold setter_ok in H. destruct (family x) as [f|]; [|discriminate].
  apply andb_true_iff in H. destruct H as [H1 H2]. exists f; repeat split; [exact H1|].
  apply existsb_exists in H2. destruct H2 as (st & Hin & Hst). destruct st; try discriminate.
  apply String.eqb_eq in Hst; subst; exact Hin.
Qed.

Definition names_unique : bool :=
  let names := map s_name setters in
  forallb (fun n => Nat.eqb (List.length (filter (String.eqb n) names)) 1) names.
Lemma names_unique_ok : names_unique = true.
Proof. vm_compute. reflexivity. Qed.

Lemma find_setter_In : forall n x, find_setter n = Some x -> In x setters /\ s_name x = n.
Proof.
  intros n x H. unfold find_setter in H. apply find_some in H. destruct H as [H1 H2].
  apply String.eqb_eq in H2. split; assumption.
Qed.

(* ------------------------------------------------------------------ exactly once *)

Lemma apply_twice_rejected : forall n1 n2 x1 x2 f r1 r2 s s1,
  find_setter n1 = Some x1 -> find_setter n2 = Some x2 ->
  family x1 = Some f -> family x2 = Some f ->
  apply_setter n1 r1 s = Ok s1 ->
  forall s2, (forall g, In g (flags s1) -> In g (flags s2)) ->
  exists k s', apply_setter n2 r2 s2 = Rej k s' /\ only_desc_changed s2 s'.
Proof.
  intros n1 n2 x1 x2 f r1 r2 s s1 F1 F2 Fa1 Fa2 A1 s2 Hmono.
  destruct (find_setter_In _ _ F1) as [I1 _]. destruct (find_setter_In _ _ F2) as [I2 _].
  destruct (setter_ok_spec x1 I1) as (f1 & E1 & _ & S1). rewrite Fa1 in E1; inversion E1; subst f1.
  destruct (setter_ok_spec x2 I2) as (f2 & E2 & G2 & _). rewrite Fa2 in E2; inversion E2; subst f2.
  unfold apply_setter in *. rewrite F1 in A1. rewrite F2.
  apply (guard_first_rejects r2 f); [exact G2|]. apply Hmono. eapply exec_body_sets; eauto.
Qed.

(* histories: flags only grow *)
Lemma run_call_flags_mono : forall r s c s', run_call r s c = Ok s' -> forall f, In f (flags s) -> In f (flags s').
Proof.
  intros r s c s' H f Hf. destruct c; simpl in H.
  - unfold apply_setter in H. destruct (find_setter name); [|discriminate]. eapply exec_body_flags_mono; eauto.
  - rewrite (write_consts_flags _ _ _ _ _ H); exact Hf.
Qed.

Lemma run_history_flags_mono : forall r cs s s', run_history r s cs = Ok s' -> forall f, In f (flags s) -> In f (flags s').
Proof.
  induction cs as [|c cs IH]; simpl; intros s s' H f Hf.
  - inversion H; subst; exact Hf.
  - destruct (run_call r s c) eqn:E; [|discriminate]. eapply IH; [exact H|]. eapply run_call_flags_mono; eauto.
Qed.

Lemma run_history_app : forall r a b s,
  run_history r s (a ++ b) = match run_history r s a with Ok s' => run_history r s' b | rej => rej end.
Proof.
  induction a as [|c a IH]; simpl; intros b s; [reflexivity|].
  destruct (run_call r s c); [apply IH|reflexivity].
Qed.

(* any history in which a setter of family f succeeded rejects a later setter of the same family, at that call,
   with both dictionaries and all flags as they were before it *)
Lemma history_exactly_once : forall r pre mid n1 n2 x1 x2 f s0 s,
  find_setter n1 = Some x1 -> find_setter n2 = Some x2 ->
  family x1 = Some f -> family x2 = Some f ->
  run_history r s0 (pre ++ [HSet n1] ++ mid) = Ok s ->
  exists k s', run_history r s0 (pre ++ [HSet n1] ++ mid ++ [HSet n2]) = Rej k s' /\ only_desc_changed s s'.
Proof.
  intros r pre mid n1 n2 x1 x2 f s0 s F1 F2 Fa1 Fa2 H.
  rewrite run_history_app in H. destruct (run_history r s0 pre) as [sp|] eqn:Ep; [|discriminate].
  simpl in H. destruct (apply_setter n1 r sp) as [s1|] eqn:E1; [|discriminate].
  assert (Hm : forall g, In g (flags s1) -> In g (flags s)) by (intros g; eapply run_history_flags_mono; eauto).
  destruct (apply_twice_rejected n1 n2 x1 x2 f r r sp s1 F1 F2 Fa1 Fa2 E1 s Hm) as (k & s' & R & O).
  exists k, s'. split; [|exact O].
  rewrite run_history_app, Ep. simpl. rewrite E1.
  rewrite run_history_app, H. simpl. rewrite R. reflexivity.
Qed.

(* ------------------------------------------------------------------ dispatch: flags and check_all_set *)

Lemma run_dact_flags_mono : forall r s a s', run_dact r s a = Ok s' -> forall f, In f (flags s) -> In f (flags s').
Proof.
  intros r s a s' H f Hf. destruct a; simpl in H.
  - eapply exec_stmt_flags_mono; eauto.
  - unfold apply_setter in H. destruct (find_setter name); [|discriminate]. eapply exec_body_flags_mono; eauto.
  - destruct r; inversion H; subst; exact Hf.
  - discriminate.
Qed.

Lemma run_dacts_flags_mono : forall r l s s', run_dacts r s l = Ok s' -> forall f, In f (flags s) -> In f (flags s').
Proof.
  induction l as [|a l IH]; simpl; intros s s' H f Hf.
  - inversion H; subst; exact Hf.
  - destruct (run_dact r s a) eqn:E; [|discriminate]. eapply IH; [exact H|]. eapply run_dact_flags_mono; eauto.
Qed.

Lemma run_step_flags_mono : forall o r s st s', run_step o r s st = Ok s' -> forall f, In f (flags s) -> In f (flags s').
Proof.
  intros o r s st s' H f Hf. destruct st; simpl in H.
  - destruct (lookup optkey o); [|discriminate]. destruct (find_branch o0 branches); [|discriminate].
    eapply run_dacts_flags_mono; eauto.
  - destruct (lookup optkey o); [|discriminate]. rewrite (write_consts_flags _ _ _ _ _ H); exact Hf.
Qed.

Definition body_sets (f : string) (b : list stmt) : bool :=
  existsb (fun st => match st with SSetFlag g => String.eqb g f | _ => false end) b.
Definition dact_sets (f : string) (a : dact) : bool :=
  match a with
  | DCall n => match find_setter n with Some x => body_sets f (s_body x) | None => true end
  | DExit => true
  | _ => false
  end.
Definition branch_sets (f : string) (acts : list dact) : bool := existsb (dact_sets f) acts.
Definition step_sets (f : string) (st : dstep) : bool :=
  match st with
  | DChain _ brs => forallb (fun br => branch_sets f (snd br)) brs
  | _ => false
  end.
Definition all_covered : bool := forallb (fun f => existsb (step_sets f) dispatch_steps) check_flags.

Lemma all_covered_ok : all_covered = true.
Proof. vm_compute. reflexivity. Qed.

Lemma body_sets_In : forall f b, body_sets f b = true -> In (SSetFlag f) b.
Proof.
  intros f b H. unfold body_sets in H. apply existsb_exists in H. destruct H as (st & Hin & Hst).
  destruct st; try discriminate. apply String.eqb_eq in Hst; subst; exact Hin.
Qed.

Lemma run_dacts_sets : forall r f l s s', branch_sets f l = true -> run_dacts r s l = Ok s' -> In f (flags s').
Proof.
  induction l as [|a l IH]; simpl; intros s s' Hb H; [discriminate|].
  destruct (run_dact r s a) as [s1|] eqn:E; [|discriminate].
  destruct (dact_sets f a) eqn:Da.
  - destruct a; simpl in Da; simpl in E; try discriminate.
    unfold apply_setter in E. destruct (find_setter name) as [x|]; [|discriminate].
    eapply run_dacts_flags_mono; [exact H|]. eapply exec_body_sets; [apply body_sets_In; exact Da|exact E].
  - simpl in Hb. eapply IH; eauto.
Qed.

Lemma find_branch_In : forall v brs acts, find_branch v brs = Some acts -> exists lit, In (lit, acts) brs /\ optv_is_str v lit = true.
Proof.
  intros v brs acts H. unfold find_branch in H.
  destruct (find (fun br => optv_is_str v (fst br)) brs) as [[lit a]|] eqn:E; [|discriminate].
  inversion H; subst. apply find_some in E. destruct E as [E1 E2]. exists lit; split; assumption.
Qed.

Lemma run_step_sets : forall o r f st s s', step_sets f st = true -> run_step o r s st = Ok s' -> In f (flags s').
Proof.
  intros o r f st s s' Hs H. destruct st; simpl in Hs; [|discriminate]. simpl in H.
  destruct (lookup optkey o) as [v|]; [|discriminate].
  destruct (find_branch v branches) as [acts|] eqn:E; [|discriminate].
  destruct (find_branch_In _ _ _ E) as (lit & Hin & _).
  rewrite forallb_forall in Hs. specialize (Hs _ Hin). simpl in Hs. eapply run_dacts_sets; eauto.
Qed.

Lemma run_steps_flags_mono : forall o r l s s', run_steps o r s l = Ok s' -> forall f, In f (flags s) -> In f (flags s').
Proof.
  induction l as [|st l IH]; simpl; intros s s' H f Hf.
  - inversion H; subst; exact Hf.
  - destruct (run_step o r s st) eqn:E; [|discriminate]. eapply IH; [exact H|]. eapply run_step_flags_mono; eauto.
Qed.

Lemma run_steps_sets : forall o r f l s s', existsb (step_sets f) l = true -> run_steps o r s l = Ok s' -> In f (flags s').
Proof.
  induction l as [|st l IH]; simpl; intros s s' Hb H; [discriminate|].
  destruct (run_step o r s st) as [s1|] eqn:E; [|discriminate].
  destruct (step_sets f st) eqn:Ds.
  - eapply run_steps_flags_mono; [exact H|]. eapply run_step_sets; eauto.
  - simpl in Hb. eapply IH; eauto.
Qed.

(* overrides never touch flags *)
Lemma ov_substr_flags : forall pat suf i o s s', ov_substr pat suf i o s = Ok s' -> flags s' = flags s.
Proof.
  induction o as [|[k v] t IH]; simpl; intros s s' H.
  - inversion H; reflexivity.
  - destruct (contains pat k); [|apply IH; exact H].
    destruct (if i then to_int v else to_float v) as [x|]; [|discriminate].
    rewrite (IH _ _ H). reflexivity.
Qed.

Lemma mul_key_flags : forall m k s s', mul_key m k s = Ok s' -> flags s' = flags s.
Proof.
  intros m k s s'; unfold mul_key. destruct (lookup k (consts s)) as [[]|]; intro H; inversion H; reflexivity.
Qed.
Lemma mul_keys_flags : forall m ks s s', mul_keys m ks s = Ok s' -> flags s' = flags s.
Proof.
  induction ks as [|k t IH]; simpl; intros s s' H; [inversion H; reflexivity|].
  destruct (mul_key m k s) eqn:E; [|discriminate]. rewrite (IH _ _ H). eapply mul_key_flags; eauto.
Qed.
Lemma mul_keys_try_flags : forall m ks s, flags (mul_keys_try m ks s) = flags s.
Proof.
  induction ks as [|k t IH]; simpl; intros s; [reflexivity|].
  destruct (mul_key m k s) eqn:E; [|reflexivity]. rewrite IH. eapply mul_key_flags; eauto.
Qed.

Lemma run_ovr_flags : forall o s ov s', run_ovr o s ov = Ok s' -> flags s' = flags s.
Proof.
  intros o s ov s' H. destruct ov; cbn [run_ovr] in H.
  - eapply ov_substr_flags; eauto.
  - destruct (lookup key o); [|inversion H; reflexivity].
    destruct (to_float o0); [|discriminate].
    destruct (write_consts "" key (VNum q) s) eqn:E; [|discriminate].
    destruct (in_range lo q hi); [|discriminate]. inversion H; subst. eapply write_consts_flags; eauto.
  - destruct (lookup optkey o); [|inversion H; reflexivity].
    destruct (to_float o0); [|discriminate].
    destruct (in_range lo q hi); [|discriminate].
    destruct (mul_keys q keys s) eqn:E; [|discriminate]. inversion H; subst.
    rewrite mul_keys_try_flags. eapply mul_keys_flags; eauto.
Qed.

Lemma run_ovrs_flags : forall o l s s', run_ovrs o s l = Ok s' -> flags s' = flags s.
Proof.
  induction l as [|ov l IH]; simpl; intros s s' H; [inversion H; reflexivity|].
  destruct (run_ovr o s ov) eqn:E; [|discriminate]. rewrite (IH _ _ H). eapply run_ovr_flags; eauto.
Qed.

Lemma dispatch_all_set : forall opts r s, dispatch opts r = DOk s -> check_all_set s = true.
Proof.
  intros opts r s H. unfold dispatch in H.
  destruct (negb (forallb (fun k => has_key k opts) required_keys)); [discriminate|].
  destruct (iso3_of r); [|discriminate].
  destruct (alter failing_scenarios opts v) as [o'|]; [|discriminate].
  destruct (run_steps o' r init_state dispatch_steps) as [s1|] eqn:E1; [|discriminate].
  destruct (run_ovrs o' s1 overrides) as [s2|] eqn:E2; [|discriminate].
  inversion H; subst s2. unfold check_all_set. apply forallb_forall. intros f Hf.
  apply str_mem_In. rewrite (run_ovrs_flags _ _ _ _ E2).
  pose proof all_covered_ok as C. unfold all_covered in C. rewrite forallb_forall in C.
  eapply run_steps_sets; [apply C; exact Hf|exact E1].
Qed.

Lemma check_all_set_iff : forall s, check_all_set s = true <-> (forall f, In f check_flags -> In f (flags s)).
Proof.
  intro s. unfold check_all_set. rewrite forallb_forall. split; intros H f Hf.
  - apply str_mem_In. apply H; exact Hf.
  - apply str_mem_In. apply H; exact Hf.
Qed.

(* ------------------------------------------------------------------ dispatch: rejections *)

Lemma missing_key_rejected : forall opts r k, In k required_keys -> lookup k opts = None -> dispatch opts r = DRej AssertRejected.
Proof.
  intros opts r k Hk Hl. unfold dispatch.
  destruct (forallb (fun k0 => has_key k0 opts) required_keys) eqn:E; [|reflexivity].
  rewrite forallb_forall in E. specialize (E k Hk). unfold has_key in E. rewrite Hl in E. discriminate.
Qed.

Definition no_branch (v : optv) (brs : list (string * list dact)) : Prop :=
  forall lit acts, In (lit, acts) brs -> optv_is_str v lit = false.

Lemma find_branch_none : forall v brs, no_branch v brs -> find_branch v brs = None.
Proof.
  intros v brs H. unfold find_branch.
  destruct (find (fun br => optv_is_str v (fst br)) brs) as [[lit a]|] eqn:E; [|reflexivity].
  apply find_some in E. destruct E as [E1 E2]. simpl in E2. rewrite (H _ _ E1) in E2. discriminate.
Qed.

Lemma run_steps_unknown : forall o r key brs v l s, In (DChain key brs) l -> lookup key o = Some v -> no_branch v brs ->
  exists k s', run_steps o r s l = Rej k s'.
Proof.
  induction l as [|st l IH]; simpl; intros s Hin Hl Hn; [contradiction|].
  destruct (run_step o r s st) as [s1|k s1] eqn:E.
  - destruct Hin as [->|Hin].
    + simpl in E. rewrite Hl, (find_branch_none _ _ Hn) in E. discriminate.
    + eapply IH; eauto.
  - exists k, s1; reflexivity.
Qed.

(* the correction applied by alter_scenario_if_known_to_fail only ever replaces a value that was itself one of
   the literals of that option's chain (checked on the generated tables) *)
Definition chain_lits (key : string) : list string :=
  flat_map (fun st => match st with DChain k brs => if String.eqb k key then map fst brs else [] | _ => [] end) dispatch_steps.
Definition failing_wf (f : failing) : bool :=
  match lookup (fst (f_corr f)) (f_conds f) with
  | Some vals => forallb (fun v => str_mem v (chain_lits (fst (f_corr f)))) vals
  | None => false
  end.
Lemma failing_wf_ok : forallb failing_wf failing_scenarios = true.
Proof. vm_compute. reflexivity. Qed.

Lemma lookup_set_assoc_other : forall A k k' (v : A) d, k' <> k -> lookup k' (set_assoc k v d) = lookup k' d.
Proof.
  induction d as [|[a b] d IH]; simpl; intros Hne.
  - destruct (String.eqb_spec k' k); [contradiction|reflexivity].
  - destruct (String.eqb_spec k a) as [->|Hka]; simpl.
    + destruct (String.eqb_spec k' a); [contradiction|reflexivity].
    + destruct (String.eqb_spec k' a); [reflexivity|apply IH; exact Hne].
Qed.

Lemma alter_lookup : forall fs opts iso opts' key, alter fs opts iso = AOk opts' ->
  lookup key opts' = lookup key opts \/
  (exists f, In f fs /\ key = fst (f_corr f) /\ forallb (cond_matches opts) (f_conds f) = true).
Proof.
  induction fs as [|f fs IH]; simpl; intros opts iso opts' key H.
  - inversion H; left; reflexivity.
  - destruct (negb (forallb (fun c => has_key (fst c) opts) (f_conds f))); [discriminate|].
    destruct (forallb (cond_matches opts) (f_conds f) && value_is_str iso (f_code f)) eqn:E.
    + inversion H; subst. apply andb_true_iff in E. destruct E as [E _].
      destruct (String.eqb_spec key (fst (f_corr f))) as [->|Hne].
      * right. exists f; repeat split; [left; reflexivity|exact E].
      * left. apply lookup_set_assoc_other; exact Hne.
    + destruct (IH _ _ _ key H) as [L|(g & Hg & R)]; [left; exact L|right; exists g; split; [right; exact Hg|exact R]].
Qed.

Lemma lookup_In_fst : forall A k (d : list (string * A)) v, lookup k d = Some v -> In (k, v) d.
Proof. intros; apply lookup_In; assumption. Qed.

Lemma unknown_value_rejected : forall opts r key brs v,
  In (DChain key brs) dispatch_steps -> lookup key opts = Some v ->
  (forall lit, In lit (chain_lits key) -> optv_is_str v lit = false) ->
  exists k, dispatch opts r = DRej k.
Proof.
  intros opts r key brs v Hin Hl Hno. unfold dispatch.
  destruct (negb (forallb (fun k => has_key k opts) required_keys)); [eexists; reflexivity|].
  destruct (iso3_of r) as [iso|]; [|eexists; reflexivity].
  destruct (alter failing_scenarios opts iso) as [o'|] eqn:Ea; [|eexists; reflexivity].
  assert (Hl' : lookup key o' = Some v).
  { destruct (alter_lookup _ _ _ _ key Ea) as [L|(f & Hf & Hk & Hm)]; [rewrite L; exact Hl|].
    exfalso. pose proof failing_wf_ok as W. rewrite forallb_forall in W. specialize (W f Hf). unfold failing_wf in W.
    rewrite <- Hk in W. destruct (lookup key (f_conds f)) as [vals|] eqn:Ec; [|discriminate].
    rewrite forallb_forall in Hm. specialize (Hm _ (lookup_In _ _ _ Ec)). unfold cond_matches in Hm. simpl in Hm.
    rewrite Hl in Hm. apply existsb_exists in Hm. destruct Hm as (lit & Hlit & Hv).
    rewrite forallb_forall in W. specialize (W lit Hlit). apply str_mem_In in W.
    rewrite (Hno lit W) in Hv. discriminate. }
  assert (Hn : no_branch v brs).
  { intros lit acts Hb. apply Hno. unfold chain_lits. apply in_flat_map. exists (DChain key brs). split; [exact Hin|].
    rewrite String.eqb_refl. apply in_map_iff. exists (lit, acts); split; [reflexivity|exact Hb]. }
  destruct (run_steps_unknown o' r key brs v dispatch_steps init_state Hin Hl' Hn) as (k & s' & R).
  rewrite R. eexists; reflexivity.
Qed.

(* ------------------------------------------------------------------ head-count key *)

Lemma head_keys_ok : forallb (fun c => match head_column (head_const_key c) with Some c' => String.eqb c' c | None => false end)
                             species_head_columns = true.
Proof. vm_compute. reflexivity. Qed.

Lemma head_key_species : forall c, In c species_head_columns -> head_column (head_const_key c) = Some c.
Proof.
  intros c Hc. pose proof head_keys_ok as H. rewrite forallb_forall in H. specialize (H c Hc).
  destruct (head_column (head_const_key c)) as [c'|]; [|discriminate]. apply String.eqb_eq in H; subst; reflexivity.
Qed.

(* the override is applied after the country code has been remapped (SWT -> SWZ), so it is written to the very
   row create_animal_objects reads - for EVERY country code.  If the two statements are ever swapped back the
   translator emits head_override_before_remap = true and this proof no longer compiles. *)
Lemma head_reach_all : forall code, head_write_label code = head_read_label code.
Proof.
  intro code. unfold head_write_label, head_read_label.
  change head_override_before_remap with false. reflexivity.
Qed.

(* ------------------------------------------------------------------ witness configurations (non-vacuity, accepted values) *)

Fixpoint expr_cols (e : expr) : list string :=
  match e with
  | ERow c => [c]
  | EAdd a b | ESub a b | EMul a b | EDiv a b | ERepeat a b => (expr_cols a ++ expr_cols b)%list
  | EList l => (fix go (l : list expr) : list string := match l with [] => [] | x :: t => (expr_cols x ++ go t)%list end) l
  | _ => []
  end.
Definition stmt_cols (st : stmt) : list string :=
  match st with
  | SWrite _ _ e | STWrite _ e | SAssertRange _ e _ => expr_cols e
  | SWriteIfRowEq c _ _ _ e => c :: expr_cols e
  | _ => []
  end.
(* a country row that has every column any setter reads: 1/12 everywhere (seasonality sums to one) *)
Definition synthetic_row : dict :=
  ("iso3", VStr "XXX") :: ("seaweed_growth_per_day_7", VNum (5 # 2)) ::
  map (fun c => (c, VNum (1 # 12))) (flat_map (fun x => flat_map stmt_cols (s_body x)) setters).

Definition base_global : options :=
  [("scale", OStr "global"); ("NMONTHS", ONum 120); ("stored_food", OStr "baseline");
   ("ratio_stocks_untouched", OStr "zero"); ("shutoff", OStr "continued"); ("waste", OStr "baseline_globally");
   ("nutrition", OStr "catastrophe"); ("intake_constraints", OStr "enabled"); ("seasonality", OStr "baseline_globally");
   ("grasses", OStr "global_nuclear_winter"); ("fish", OStr "nuclear_winter"); ("crop_disruption", OStr "global_nuclear_winter");
   ("protein", OStr "not_required"); ("fat", OStr "not_required"); ("cull", OStr "do_eat_culled");
   ("scenario", OStr "all_resilient_foods"); ("meat_strategy", OStr "reduce_breeding")].
Definition base_country : options :=
  [("scale", OStr "country"); ("NMONTHS", ONum 120); ("stored_food", OStr "baseline");
   ("ratio_stocks_untouched", OStr "zero"); ("shutoff", OStr "long_delayed_shutoff"); ("waste", OStr "baseline_in_country");
   ("nutrition", OStr "catastrophe"); ("intake_constraints", OStr "enabled"); ("seasonality", OStr "country");
   ("grasses", OStr "country_nuclear_winter"); ("fish", OStr "nuclear_winter"); ("crop_disruption", OStr "country_nuclear_winter");
   ("protein", OStr "not_required"); ("fat", OStr "not_required"); ("cull", OStr "do_eat_culled");
   ("scenario", OStr "all_resilient_foods"); ("meat_strategy", OStr "reduce_breeding")].
Definition witness_configs : list (options * row) :=
  [(base_global, None); (base_country, Some synthetic_row)].

Definition is_exit (a : dact) : bool := match a with DExit => true | _ => false end.
Definition accepted_on (key v : string) (cfg : options * row) : bool :=
  match dispatch (set_assoc key (OStr v) (fst cfg)) (snd cfg) with DOk _ => true | DRej _ => false end.
Definition value_ok (key v : string) (acts : list dact) : bool :=
  existsb is_exit acts || existsb (accepted_on key v) witness_configs.
Definition values_ok_on (steps : list dstep) : bool :=
  forallb (fun st => match st with
                     | DChain key brs => forallb (fun br => value_ok key (fst br) (snd br)) brs
                     | _ => true
                     end) steps.
Lemma all_values_ok_true : values_ok_on dispatch_steps = true.
Proof. vm_compute. reflexivity. Qed.

Lemma values_ok_on_spec : forall steps, values_ok_on steps = true ->
  forall key brs v acts, In (DChain key brs) steps -> In (v, acts) brs -> value_ok key v acts = true.
Proof.
  intros steps H key brs v acts Hs Hb. unfold values_ok_on in H.
  rewrite forallb_forall in H. specialize (H _ Hs). cbv beta iota in H.
  rewrite forallb_forall in H. exact (H _ Hb).
Qed.

Lemma value_ok_spec : forall key v acts, value_ok key v acts = true ->
  In DExit acts \/
  exists cfg s, In cfg witness_configs /\ dispatch (set_assoc key (OStr v) (fst cfg)) (snd cfg) = DOk s.
Proof.
  intros key v acts H. unfold value_ok in H.
  apply orb_true_iff in H. destruct H as [H|H].
  - left. apply existsb_exists in H. destruct H as (a & Ha & He). destruct a; try discriminate. exact Ha.
  - right. apply existsb_exists in H. destruct H as (cfg & Hc & Ha). unfold accepted_on in Ha.
    destruct (dispatch (set_assoc key (OStr v) (fst cfg)) (snd cfg)) as [s|] eqn:E; [|discriminate].
    exists cfg, s; split; [exact Hc|exact E].
Qed.

Lemma values_accepted : forall key brs v acts, In (DChain key brs) dispatch_steps -> In (v, acts) brs ->
  In DExit acts \/
  exists cfg s, In cfg witness_configs /\ dispatch (set_assoc key (OStr v) (fst cfg)) (snd cfg) = DOk s.
Proof.
  intros key brs v acts Hs Hb. apply value_ok_spec.
  exact (values_ok_on_spec dispatch_steps all_values_ok_true key brs v acts Hs Hb).
Qed.

(* ------------------------------------------------------------------ what a literal setter writes *)

(* final value of every key a body writes when run without a country row; None when the body is not a plain
   sequence of literal writes (reads the row, rebinds the dictionary, writes time constants) *)
Fixpoint final_writes (env acc : dict) (b : list stmt) : option dict :=
  match b with
  | [] => Some acc
  | SWrite p k e :: b' =>
    match eval None (acc ++ env)%list e with
    | EvOk v => final_writes env (set_assoc (dkey p k) v acc) b'
    | EvErr _ => None
    end
  | (STWrite _ _ | SNew | SSeaweedCols _ _ | SWriteIfRowEq _ _ _ _ _) :: _ => None
  | _ :: b' => final_writes env acc b'
  end.

Definition chain_setter (fam v : string) : option setter :=
  match find (fun st => match st with DChain k _ => String.eqb k fam | _ => false end) dispatch_steps with
  | Some (DChain _ brs) =>
    match lookup v brs with
    | Some [DCall n] => find_setter n
    | _ => None
    end
  | _ => None
  end.

Definition same_writes (spec got : dict) : bool :=
  Nat.eqb (List.length spec) (List.length got) &&
  forallb (fun kv => match lookup (fst kv) got with Some v => value_close 0 (snd kv) v | None => false end) spec.

Definition doc_env : dict := [("NMONTHS", VNum 120); ("INITIAL_GLOBAL_CROP_AREA", VNum 1430000000); ("DELAY", VDict);
                              ("ROTATION_IMPROVEMENTS", VDict)].
Definition entry_holds (e : string * string * dict) : bool :=
  match e with
  | (fam, v, spec) =>
    match chain_setter fam v with
    | Some x => match final_writes doc_env [] (s_body x) with Some got => same_writes spec got | None => false end
    | None => false
    end
  end.
