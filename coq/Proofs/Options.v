(* Lemmas about Model/Options.v over the generated tables of Gen/Setters.v. *)
From Coq Require Import QArith List String Bool Arith ZArith Lia.
From Allfed Require Import Base.Dec Base.StrUtil Gen.Setters Model.Options.
Import ListNotations.
Open Scope Q_scope.
Open Scope string_scope.

(* ------------------------------------------------------------------ generic facts about the interpreter *)

Lemma str_mem_In : forall s l, str_mem s l = true <-> In s l.
Proof.
  intros s l; unfold str_mem; rewrite existsb_exists; split.
  - intros (x & Hx & He). apply String.eqb_eq in He; subst; assumption.
  - intro H; exists s; split; [assumption|apply String.eqb_refl].
Qed.

(* which components a statement may touch *)
Definition same_but_consts (s s' : lstate) : Prop :=
  flags s' = flags s /\ is_global s' = is_global s /\ desc s' = desc s /\ tconsts s' = tconsts s.

Lemma write_consts_flags : forall p k v s s', write_consts p k v s = Ok s' -> flags s' = flags s.
Proof.
  intros p k v s s'; unfold write_consts.
  destruct (String.eqb p ""); [intro H; inversion H; reflexivity|].
  destruct (lookup p (consts s)) as [[]|]; intro H; inversion H; reflexivity.
Qed.

Lemma write_consts_rej_same : forall p k v s kd s', write_consts p k v s = Rej kd s' -> s' = s.
Proof.
  intros p k v s kd s'; unfold write_consts.
  destruct (String.eqb p ""); [discriminate|].
  destruct (lookup p (consts s)) as [[]|]; intro H; inversion H; reflexivity.
Qed.

Lemma seaweed_cols_flags : forall pat dk cols s s', seaweed_cols pat dk cols s = Ok s' -> flags s' = flags s.
Proof.
  induction cols as [|[n v] t IH]; simpl; intros s s' H.
  - inversion H; reflexivity.
  - destruct (contains pat n); [|eauto].
    destruct (write_consts dk (replace_all pat "" n) v s) eqn:E; [|discriminate].
    rewrite (IH _ _ H). eapply write_consts_flags; eauto.
Qed.

(* flags only grow along successful statements *)
Lemma exec_stmt_flags_mono : forall r s st s', exec_stmt r s st = Ok s' -> forall f, In f (flags s) -> In f (flags s').
Proof.
  intros r s st s' H f Hf.
  destruct st; cbn [exec_stmt] in H.
  - inversion H; subst; exact Hf.
  - destruct (str_mem flag (flags s)); inversion H; subst; exact Hf.
  - inversion H; subst; simpl; right; exact Hf.
  - destruct (is_global s) as [b|]; [destruct (Bool.eqb b want)|]; inversion H; subst; exact Hf.
  - inversion H; subst; exact Hf.
  - inversion H; subst; exact Hf.
  - destruct (eval r (consts s) e); [|discriminate]. rewrite (write_consts_flags _ _ _ _ _ H); exact Hf.
  - destruct (eval r (consts s) e); inversion H; subst; exact Hf.
  - destruct (has_key key (consts s)); inversion H; subst; exact Hf.
  - destruct (eval r (consts s) e) as [[]|]; try discriminate.
    destruct (in_range lo q hi); inversion H; subst; exact Hf.
  - destruct (lookup key (consts s)) as [[]|]; try discriminate.
    destruct (approx_eq (qsum l) target); inversion H; subst; exact Hf.
  - destruct (lookup key (consts s)) as [[]|]; try discriminate.
    destruct (forallb _ _); [|discriminate]. destruct (Nat.leb n (List.length l)); inversion H; subst; exact Hf.
  - destruct (eval r (consts s) (ERow col)) as [[]|]; try discriminate; try (inversion H; subst; exact Hf).
    destruct (Qeq_bool q0 q); [|inversion H; subst; exact Hf].
    destruct (eval r (consts s) e); [|discriminate]. rewrite (write_consts_flags _ _ _ _ _ H); exact Hf.
  - destruct r as [cols|]; [|discriminate]. rewrite (seaweed_cols_flags _ _ _ _ _ H); exact Hf.
Qed.

Lemma exec_body_flags_mono : forall r b s s', exec_body r s b = Ok s' -> forall f, In f (flags s) -> In f (flags s').
Proof.
  induction b as [|st b IH]; simpl; intros s s' H f Hf.
  - inversion H; subst; exact Hf.
  - destruct (exec_stmt r s st) eqn:E; [|discriminate].
    eapply IH; [exact H|]. eapply exec_stmt_flags_mono; eauto.
Qed.

(* a body that contains SSetFlag f has f set after any successful run *)
Lemma exec_body_sets : forall r b s s' f, In (SSetFlag f) b -> exec_body r s b = Ok s' -> In f (flags s').
Proof.
  induction b as [|st b IH]; simpl; intros s s' f Hin H; [contradiction|].
  destruct (exec_stmt r s st) eqn:E; [|discriminate].
  destruct Hin as [->|Hin].
  - simpl in E. inversion E; subst. eapply exec_body_flags_mono; [exact H|simpl; left; reflexivity].
  - eapply IH; eauto.
Qed.

(* "the guard precedes the first effect": before SGuard f only description text and tests of
   IS_GLOBAL_ANALYSIS may occur (neither touches a dictionary or a flag) *)
Fixpoint guard_first (f : string) (b : list stmt) : bool :=
  match b with
  | SGuard g :: _ => String.eqb g f
  | SDesc _ :: b' => guard_first f b'
  | SAssertGlobal _ :: b' => guard_first f b'
  | _ => false
  end.

(* what a rejected second call may have changed: the description only *)
Definition only_desc_changed (s s' : lstate) : Prop :=
  flags s' = flags s /\ is_global s' = is_global s /\ consts s' = consts s /\ tconsts s' = tconsts s.

Lemma guard_first_rejects : forall r f b s, guard_first f b = true -> In f (flags s) ->
  exists k s', exec_body r s b = Rej k s' /\ only_desc_changed s s'.
Proof.
  induction b as [|st b IH]; simpl; intros s Hg Hf; [discriminate|].
  destruct st; try discriminate.
  - (* SDesc *) simpl.
    destruct (IH (with_desc s (desc s ++ s0)) Hg Hf) as (k & s' & E & (A & B & C & D)).
    exists k, s'; split; [exact E|]. repeat split; assumption.
  - (* SGuard *) apply String.eqb_eq in Hg; subst flag. simpl.
    assert (M : str_mem f (flags s) = true) by (apply str_mem_In; exact Hf). rewrite M.
    exists AssertRejected, s; split; [reflexivity|repeat split].
  - (* SAssertGlobal *) simpl. destruct (is_global s) as [g|].
    + destruct (Bool.eqb g want).
      * apply IH; assumption.
      * exists AssertRejected, s; split; [reflexivity|repeat split].
    + exists TypeRejected, s; split; [reflexivity|repeat split].
Qed.

(* ------------------------------------------------------------------ checked facts about the generated table *)

Definition setter_ok (x : setter) : bool :=
  match family x with
  | Some f => guard_first f (s_body x) && existsb (fun st => match st with SSetFlag g => String.eqb g f | _ => false end) (s_body x)
  | None => false
  end.

Lemma all_setters_ok : forallb setter_ok setters = true.
Proof. vm_compute. reflexivity. Qed.

Lemma setter_ok_spec : forall x, In x setters ->
  exists f, family x = Some f /\ guard_first f (s_body x) = true /\ In (SSetFlag f) (s_body x).
Proof.
  intros x Hx. pose proof all_setters_ok as H. rewrite forallb_forall in H. specialize (H x Hx).
  unfold setter_ok in H. destruct (family x) as [f|]; [|discriminate].
  apply andb_true_iff in H. destruct H as [H1 H2]. exists f; repeat split; [exact H1|].
  apply existsb_exists in H2. destruct H2 as (st & Hin & Hst). destruct st; try discriminate.
  apply String.eqb_eq in Hst; subst; exact Hin.
Qed.

Definition names_unique : bool :=
  let names := map s_name setters in
  forallb (fun n => Nat.eqb (List.length (filter (String.eqb n) names)) 1) names.
Lemma names_unique_ok : names_unique = true.
Proof. vm_compute. reflexivity. Qed.

Lemma find_setter_In : forall n x, find_setter n = Some x -> In x setters /\ s_name x = n.
Proof.
  intros n x H. unfold find_setter in H. apply find_some in H. destruct H as [H1 H2].
  apply String.eqb_eq in H2. split; assumption.
Qed.

(* ------------------------------------------------------------------ exactly once *)

Lemma apply_twice_rejected : forall n1 n2 x1 x2 f r1 r2 s s1,
  find_setter n1 = Some x1 -> find_setter n2 = Some x2 ->
  family x1 = Some f -> family x2 = Some f ->
  apply_setter n1 r1 s = Ok s1 ->
  forall s2, (forall g, In g (flags s1) -> In g (flags s2)) ->
  exists k s', apply_setter n2 r2 s2 = Rej k s' /\ only_desc_changed s2 s'.
Proof.
  intros n1 n2 x1 x2 f r1 r2 s s1 F1 F2 Fa1 Fa2 A1 s2 Hmono.
  destruct (find_setter_In _ _ F1) as [I1 _]. destruct (find_setter_In _ _ F2) as [I2 _].
  destruct (setter_ok_spec x1 I1) as (f1 & E1 & _ & S1). rewrite Fa1 in E1; inversion E1; subst f1.
  destruct (setter_ok_spec x2 I2) as (f2 & E2 & G2 & _). rewrite Fa2 in E2; inversion E2; subst f2.
  unfold apply_setter in *. rewrite F1 in A1. rewrite F2.
  apply (guard_first_rejects r2 f); [exact G2|]. apply Hmono. eapply exec_body_sets; eauto.
Qed.

(* histories: flags only grow *)
Lemma run_call_flags_mono : forall r s c s', run_call r s c = Ok s' -> forall f, In f (flags s) -> In f (flags s').
Proof.
  intros r s c s' H f Hf. destruct c; simpl in H.
  - unfold apply_setter in H. destruct (find_setter name); [|discriminate]. eapply exec_body_flags_mono; eauto.
  - rewrite (write_consts_flags _ _ _ _ _ H); exact Hf.
Qed.

Lemma run_history_flags_mono : forall r cs s s', run_history r s cs = Ok s' -> forall f, In f (flags s) -> In f (flags s').
Proof.
  induction cs as [|c cs IH]; simpl; intros s s' H f Hf.
  - inversion H; subst; exact Hf.
  - destruct (run_call r s c) eqn:E; [|discriminate]. eapply IH; [exact H|]. eapply run_call_flags_mono; eauto.
Qed.

Lemma run_history_app : forall r a b s,
  run_history r s (a ++ b) = match run_history r s a with Ok s' => run_history r s' b | rej => rej end.
Proof.
  induction a as [|c a IH]; simpl; intros b s; [reflexivity|].
  destruct (run_call r s c); [apply IH|reflexivity].
Qed.

(* any history in which a setter of family f succeeded rejects a later setter of the same family, at that call,
   with both dictionaries and all flags as they were before it *)
Lemma history_exactly_once : forall r pre mid n1 n2 x1 x2 f s0 s,
  find_setter n1 = Some x1 -> find_setter n2 = Some x2 ->
  family x1 = Some f -> family x2 = Some f ->
  run_history r s0 (pre ++ [HSet n1] ++ mid) = Ok s ->
  exists k s', run_history r s0 (pre ++ [HSet n1] ++ mid ++ [HSet n2]) = Rej k s' /\ only_desc_changed s s'.
Proof.
  intros r pre mid n1 n2 x1 x2 f s0 s F1 F2 Fa1 Fa2 H.
  rewrite run_history_app in H. destruct (run_history r s0 pre) as [sp|] eqn:Ep; [|discriminate].
  simpl in H. destruct (apply_setter n1 r sp) as [s1|] eqn:E1; [|discriminate].
  assert (Hm : forall g, In g (flags s1) -> In g (flags s)) by (intros g; eapply run_history_flags_mono; eauto).
  destruct (apply_twice_rejected n1 n2 x1 x2 f r r sp s1 F1 F2 Fa1 Fa2 E1 s Hm) as (k & s' & R & O).
  exists k, s'. split; [|exact O].
  rewrite run_history_app, Ep. simpl. rewrite E1.
  rewrite run_history_app, H. simpl. rewrite R. reflexivity.
Qed.
