(* Soundness of the boolean checkers of Model/LPBool.v. *)
From Coq Require Import QArith List Bool Arith Lia Lqa.
From Allfed Require Import Model.LP Model.LPBool.
Import ListNotations.
Open Scope Q_scope.

Lemma satb_sound a r : satb a r = true -> sat a r.
Proof.
  unfold satb, sat. destruct (sns r); intros H.
  - apply Qle_bool_iff; exact H.
  - apply Qle_bool_iff; exact H.
  - apply Qeq_bool_iff; exact H.
Qed.

Lemma satb_complete a r : sat a r -> satb a r = true.
Proof.
  unfold satb, sat. destruct (sns r); intros H.
  - apply Qle_bool_iff; exact H.
  - apply Qle_bool_iff; exact H.
  - apply Qeq_bool_iff; exact H.
Qed.

Lemma forallb_satb_sound a l : forallb (satb a) l = true -> Forall (sat a) l.
Proof.
  intros H. apply Forall_forall. intros r Hr.
  apply satb_sound. rewrite forallb_forall in H. apply H; exact Hr.
Qed.

Lemma a_of_nonneg tbl : tbl_nonnegb tbl = true -> nonneg (a_of tbl).
Proof.
  unfold nonneg, a_of, tbl_nonnegb. induction tbl as [|[[s' m'] q] tl IH]; intros H s m; cbn [lookup].
  - lra.
  - cbn [forallb snd] in H. apply andb_true_iff in H. destruct H as [Hq Htl].
    destruct (Nat.eqb (slot_id s) (slot_id s') && Nat.eqb m m').
    + apply Qle_bool_iff; exact Hq.
    + apply IH; exact Htl.
Qed.

Lemma feasibleb_sound i ty tbl : feasibleb i ty tbl = true -> Feasible i ty (a_of tbl).
Proof.
  unfold feasibleb, Feasible. intros H. apply andb_true_iff in H. destruct H as [H1 H2].
  split; [apply a_of_nonneg; exact H1 | apply forallb_satb_sound; exact H2].
Qed.

Lemma feasible2b_sound i ty v tbl : feasible2b i ty v tbl = true -> Feasible2 i ty v (a_of tbl).
Proof.
  unfold feasible2b, Feasible2. intros H. apply andb_true_iff in H. destruct H as [H1 H2].
  split; [apply feasibleb_sound; exact H1 | apply forallb_satb_sound; exact H2].
Qed.
