(* C02 - the LP that optimizer.py builds (Model/LP.v `build`) IS the allocation problem of the
   property (Model/Physical.v), for every input and horizon:
     c02_sound     : Feasible i ty a -> Physical i ty (proj a) /\ achieves ... (a Obj 0)
     c02_complete  : Physical i ty x -> achieves i ty x v -> 0 <= v ->
                     exists a, Feasible i ty a /\ proj a = x /\ a Obj 0 == v
                     (stock variables DEFINED from cumulative flows, see `extend`)
     c02_same_optimum, c02_upper_bound_transfer : same achievable objective values
     c02_objective_faithful : max-min objective; at an optimum objective = worst month.
   Built on the characterisation interface Proofs/LPChar.v. *)
From Coq Require Import QArith List Bool Arith Lia Lqa.
From Allfed Require Import Model.LP Model.Physical Proofs.LPChar.
Import ListNotations.
Open Scope Q_scope.


Lemma psum_sumQ f n : psum f n = sumQ f n.
Proof. induction n as [|n IH]; cbn [psum sumQ]; [reflexivity | rewrite IH; reflexivity]. Qed.

Lemma cum_csum f m : cum f m = csum f m.
Proof. apply psum_sumQ. Qed.

Ltac cum2csum := repeat match goal with |- context [cum ?f ?m] => rewrite (cum_csum f m) end.
Ltac psum2sumQ := repeat match goal with |- context [psum ?f ?n] => rewrite (psum_sumQ f n) end.

Lemma feed_tot_proj i a m : feed_tot i (proj a) m = feed_sum i a m.
Proof. reflexivity. Qed.
Lemma bio_tot_proj i a m : bio_tot i (proj a) m = biofuel_sum i a m.
Proof. reflexivity. Qed.
Lemma human_tot_proj i a m : human_tot i (proj a) m = human_sum i a m.
Proof. reflexivity. Qed.
Lemma can_carry_eq i : can_carry i = has_nonhuman i.
Proof. reflexivity. Qed.

Lemma sumQ_feed_proj i a n : sumQ (feed_tot i (proj a)) n = sumQ (feed_sum i a) n.
Proof. reflexivity. Qed.

(* ================================================================== *)
(* soundness: Feasible -> Physical (proj a)                            *)
(* ================================================================== *)
Section Sound.
  Variables (i : lp_in) (ty : opt_type) (a : assignment).
  Hypothesis F : Feasible i ty a.

  Let NN : nonneg a := Feasible_nonneg i ty a F.

  Lemma snd_nonneg : alloc_nonneg (proj a).
  Proof. intros m. cbn [proj sf_h sf_f sf_b cr_h cr_f cr_b scp_h scp_f scp_b cs_h cs_f cs_b meat_e swd_h swd_f swd_b swd_wet swd_area].
    repeat split; apply NN. Qed.

  Lemma snd_scp : add_scp i = true -> forall m, (m < NM i)%nat -> scp_use i (proj a) m <= at_ (scp_prod i) m.
  Proof. intros Hb m Hm. apply (sat_rows_scp i a m). apply (Feasible_scp i ty a F m Hb Hm). Qed.

  Lemma snd_cs : add_cs i = true -> forall m, (m < NM i)%nat -> cs_use i (proj a) m <= at_ (cs_prod i) m.
  Proof. intros Hb m Hm. apply (sat_rows_cs i a m). apply (Feasible_cs i ty a F m Hb Hm). Qed.

  (* ---- stored food ---- *)
  Lemma sf_use_proj m : sf_use i (proj a) m = gross (w_sf i) * a SF_h m + a SF_f m + a SF_b m.
  Proof. reflexivity. Qed.

  Lemma snd_sf_ledger : add_sf i = true -> forall m, (m < NM i)%nat ->
    csum (sf_use i (proj a)) m <= sf0 i /\
    (store_years i = true \/ (m <= 12)%nat -> a SF_end m == sf0 i - csum (sf_use i (proj a)) m).
  Proof.
    intros Hb m. induction m as [|p IH]; intros Hm.
    - pose proof (Feasible_sf i ty a F 0%nat Hb Hm) as R.
      assert (E : a SF_start 0%nat == sf0 i /\ sf_eaten_eq i a 0).
      { destruct (store_years i) eqn:R0;
          [apply (sat_rows_sf_store_O i ty a R0) in R | apply (sat_rows_sf_nostore_O i ty a R0) in R]; exact R. }
      destruct E as [E1 E2]. unfold sf_eaten_eq in E2. rewrite csum_0, sf_use_proj.
      pose proof (NN SF_end 0%nat). split; [lra | intros _; lra].
    - assert (Hp : (p < NM i)%nat) by lia. destruct (IH Hp) as [IH1 IH2].
      pose proof (Feasible_sf i ty a F (S p) Hb Hm) as R.
      rewrite csum_S, sf_use_proj.
      destruct (store_years i) eqn:R0.
      + apply (sat_rows_sf_store_S i ty a p R0) in R. destruct R as (E1 & E2 & _).
        unfold sf_eaten_eq in E2. specialize (IH2 (or_introl eq_refl)).
        pose proof (NN SF_end (S p)). split; [lra | intros _; lra].
      + destruct (le_lt_dec (S p) 12) as [L|L].
        * apply (sat_rows_sf_nostore_first_year i ty a p R0 L) in R. destruct R as (E1 & E2).
          unfold sf_eaten_eq in E2. assert (Lp : (p <= 12)%nat) by lia. assert (IH2' := IH2 (or_intror Lp)).
          pose proof (NN SF_end (S p)). split; [lra | intros _; lra].
        * apply (sat_rows_sf_nostore_later i ty a p R0 L) in R. destruct R as (E1 & E2 & E3 & E4).
          rewrite E1, E2, E3. split; [lra | intros [H|H]; [discriminate H | lia]].
  Qed.

  Lemma snd_sf_stock : add_sf i = true -> forall m, (m < NM i)%nat -> cum (sf_use i (proj a)) m <= sf0 i.
  Proof. intros Hb m Hm. cum2csum. apply (snd_sf_ledger Hb m Hm). Qed.

  Lemma snd_sf_first_year : add_sf i = true -> store_years i = false ->
    forall m, (m < NM i)%nat -> (12 < m)%nat ->
    sf_h (proj a) m == 0 /\ sf_f (proj a) m == 0 /\ sf_b (proj a) m == 0.
  Proof.
    intros Hb R0 m Hm L. destruct m as [|p]; [lia|].
    pose proof (Feasible_sf i ty a F (S p) Hb Hm) as R.
    apply (sat_rows_sf_nostore_later i ty a p R0 L) in R. cbn [proj sf_h sf_f sf_b]. tauto.
  Qed.

  Lemma snd_sf_all_used : add_sf i = true -> store_years i = true -> ty = ToHumans -> (2 <= NM i)%nat ->
    psum (sf_use i (proj a)) (NM i) == sf0 i.
  Proof.
    intros Hb R0 Ht HN. destruct (NM i) as [|[|p]] eqn:EN; try lia.
    assert (Hm : (S p < NM i)%nat) by lia.
    pose proof (Feasible_sf i ty a F (S p) Hb Hm) as R.
    apply (sat_rows_sf_store_S i ty a p R0) in R. destruct R as (_ & _ & E3).
    assert (E : a SF_end (S p) == 0) by (apply E3; [lia | exact Ht]).
    destruct (snd_sf_ledger Hb (S p) Hm) as [_ L]. specialize (L (or_introl R0)).
    psum2sumQ. change (sumQ (sf_use i (proj a)) (S (S p))) with (csum (sf_use i (proj a)) (S p)). lra.
  Qed.

  (* ---- outdoor crops ---- *)
  Lemma cr_use_proj m : cr_use i (proj a) m = gross (w_cr i) * a CR_h m + a CR_f m + a CR_b m.
  Proof. reflexivity. Qed.

  Lemma snd_cr_ledger : add_cr i = true -> forall m, (m < NM i)%nat ->
    a CR_storage m == csum (at_ (crops_prod i)) m - csum (cr_use i (proj a)) m.
  Proof.
    intros Hb m. induction m as [|p IH]; intros Hm.
    - pose proof (Feasible_crops i ty a F 0%nat Hb Hm) as R.
      apply sat_rows_crops_O in R. destruct R as [E1 E2]. unfold cr_consumed_eq in E1.
      rewrite !csum_0, cr_use_proj. lra.
    - assert (Hp : (p < NM i)%nat) by lia. specialize (IH Hp).
      pose proof (Feasible_crops i ty a F (S p) Hb Hm) as R.
      apply sat_rows_crops_S in R. destruct R as (E1 & E2 & _). unfold cr_consumed_eq in E1.
      rewrite !csum_S, cr_use_proj. lra.
  Qed.

  Lemma snd_cr_stock : add_cr i = true -> forall m, (m < NM i)%nat ->
    cum (cr_use i (proj a)) m <= cum (at_ (crops_prod i)) m.
  Proof.
    intros Hb m Hm. cum2csum. pose proof (snd_cr_ledger Hb m Hm). pose proof (NN CR_storage m). lra.
  Qed.

  Lemma snd_cr_all_used : add_cr i = true -> ty = ToHumans -> (2 <= NM i)%nat ->
    psum (cr_use i (proj a)) (NM i) == psum (at_ (crops_prod i)) (NM i).
  Proof.
    intros Hb Ht HN. destruct (NM i) as [|[|p]] eqn:EN; try lia.
    assert (Hm : (S p < NM i)%nat) by lia.
    pose proof (Feasible_crops i ty a F (S p) Hb Hm) as R.
    apply sat_rows_crops_S in R. destruct R as (_ & _ & E3).
    assert (E : a CR_storage (S p) == 0) by (apply E3; [lia | exact Ht]).
    pose proof (snd_cr_ledger Hb (S p) Hm) as L.
    psum2sumQ.
    change (sumQ (cr_use i (proj a)) (S (S p))) with (csum (cr_use i (proj a)) (S p)).
    change (sumQ (at_ (crops_prod i)) (S (S p))) with (csum (at_ (crops_prod i)) (S p)). lra.
  Qed.

  (* ---- meat ---- *)
  Lemma meat_use_proj m : meat_use i (proj a) m = gross (w_meat i) * a M_eaten m.
  Proof. reflexivity. Qed.

  Lemma snd_meat_ledger : add_meat i = true -> store_years i = true -> forall m, (m < NM i)%nat ->
    a M_end m == meat_total i - csum (meat_use i (proj a)) m.
  Proof.
    intros Hb R0 m. induction m as [|p IH]; intros Hm.
    - pose proof (Feasible_meat i ty a F 0%nat Hb Hm) as R.
      apply (sat_rows_meat_store_O i a R0) in R. destruct R as (E1 & E2 & _).
      rewrite csum_0, meat_use_proj. lra.
    - assert (Hp : (p < NM i)%nat) by lia. specialize (IH Hp).
      pose proof (Feasible_meat i ty a F (S p) Hb Hm) as R.
      apply (sat_rows_meat_store_S i a p R0) in R. destruct R as (E1 & E2 & _).
      rewrite csum_S, meat_use_proj. lra.
  Qed.

  Lemma snd_meat_store : add_meat i = true -> store_years i = true -> forall m, (m < NM i)%nat ->
    cum (meat_use i (proj a)) m <= at_ (meat_running i) m /\ cum (meat_use i (proj a)) m <= meat_total i.
  Proof.
    intros Hb R0 m Hm. cum2csum. pose proof (snd_meat_ledger Hb R0 m Hm) as L.
    pose proof (NN M_end m).
    pose proof (Feasible_meat i ty a F m Hb Hm) as R.
    assert (E : meat_total i - a M_end m <= at_ (meat_running i) m).
    { destruct m; [apply (sat_rows_meat_store_O i a R0) in R | apply (sat_rows_meat_store_S i a m R0) in R]; tauto. }
    split; lra.
  Qed.

  Lemma snd_meat_monthly : add_meat i = true -> store_years i = false -> forall m, (m < NM i)%nat ->
    meat_use i (proj a) m <= at_ (meat_monthly i) m.
  Proof.
    intros Hb R0 m Hm. pose proof (Feasible_meat i ty a F m Hb Hm) as R.
    apply (sat_rows_meat_nostore i a m R0) in R. exact R.
  Qed.

  (* ---- seaweed ---- *)
  Lemma snd_sw_bounds : add_sw i = true -> forall m, (m < NM i)%nat ->
    sw_init i <= swd_wet (proj a) m /\ swd_wet (proj a) m <= sw_max_density i * at_ (built_area i) m /\
    sw_init_area i <= swd_area (proj a) m /\ swd_area (proj a) m <= at_ (built_area i) m.
  Proof.
    intros Hb m Hm. exact (sat_rows_seaweed_bounds i a m (Feasible_seaweed i ty a F m Hb Hm)).
  Qed.

  Lemma snd_sw_first : add_sw i = true -> (0 < NM i)%nat ->
    swd_wet (proj a) 0%nat == sw_init i /\ swd_area (proj a) 0%nat == sw_init_area i /\
    swd_h (proj a) 0%nat == 0 /\ swd_f (proj a) 0%nat == 0 /\ swd_b (proj a) 0%nat == 0.
  Proof.
    intros Hb Hm. pose proof (Feasible_seaweed i ty a F 0%nat Hb Hm) as R.
    apply sat_rows_seaweed_O in R. cbn [proj swd_h swd_f swd_b swd_wet swd_area]. tauto.
  Qed.

  Lemma snd_sw_ledger : add_sw i = true -> forall p, (S p < NM i)%nat ->
    swd_wet (proj a) (S p) ==
    swd_wet (proj a) p * (1 + at_ (growth i) (S p) / 100)
    - gross (w_sw i) * swd_h (proj a) (S p) - swd_f (proj a) (S p) - swd_b (proj a) (S p)
    - (swd_area (proj a) (S p) - swd_area (proj a) p) * sw_min_density i * (sw_harvest_loss i / 100).
  Proof.
    intros Hb p Hm. pose proof (Feasible_seaweed i ty a F (S p) Hb Hm) as R.
    apply sat_rows_seaweed_S in R. destruct R as [_ R]. exact R.
  Qed.

  (* ---- feed / biofuel totals ---- *)
  Lemma snd_charge : ty = ToHumans -> can_carry i = true -> forall m, (m < NM i)%nat ->
    feed_tot i (proj a) m == at_ (feed_charge i) m /\ bio_tot i (proj a) m == at_ (biofuel_charge i) m.
  Proof.
    intros Ht Hc m Hm. pose proof (Feasible_feed_biofuel i ty a F m Hm) as R. rewrite Ht in R.
    apply (sat_rows_feed_biofuel_humans i a m Hc) in R. exact R.
  Qed.

  Lemma snd_ceiling : ty = ToAnimals -> can_carry i = true -> forall m, (m < NM i)%nat ->
    feed_tot i (proj a) m <= at_ (max_feed i) m /\ bio_tot i (proj a) m <= at_ (max_biofuel i) m.
  Proof.
    intros Ht Hc m Hm. pose proof (Feasible_feed_biofuel i ty a F m Hm) as R. rewrite Ht in R.
    rewrite feed_tot_proj, bio_tot_proj.
    destruct m; [apply (sat_rows_feed_biofuel_animals_O i a Hc) in R
                | apply (sat_rows_feed_biofuel_animals_S i a m Hc) in R]; tauto.
  Qed.

  Lemma snd_decreasing : ty = ToAnimals -> can_carry i = true -> forall p, (S p < NM i)%nat ->
    feed_tot i (proj a) (S p) <= feed_tot i (proj a) p /\ bio_tot i (proj a) (S p) <= bio_tot i (proj a) p.
  Proof.
    intros Ht Hc p Hm. pose proof (Feasible_feed_biofuel i ty a F (S p) Hm) as R. rewrite Ht in R.
    rewrite !feed_tot_proj, !bio_tot_proj.
    apply (sat_rows_feed_biofuel_animals_S i a p Hc) in R; tauto.
  Qed.

  Lemma pin_conv c s pin m :
    Forall (sat a) (rows_pin i ToAnimals c s pin m) -> pinned i (c * a s m) (at_ pin m).
  Proof. intros R. apply sat_rows_pin_animals in R. exact R. Qed.

  Lemma pinned_1 v p : pinned i (1 * v) p -> pinned i v p.
  Proof. unfold pinned. intros [H1 H2]. split; lra. Qed.

  Lemma snd_pins : ty = ToAnimals -> forall m, (m < NM i)%nat ->
    (add_sw i = true -> pinned i (sw_kcals i * swd_h (proj a) m) (at_ (pin_sw i) m)) /\
    (add_cr i = true -> pinned i (cr_h (proj a) m) (at_ (pin_cr i) m)) /\
    (add_sf i = true -> pinned i (sf_h (proj a) m) (at_ (pin_sf i) m)) /\
    (add_meat i = true -> pinned i (meat_e (proj a) m) (at_ (pin_meat i) m)) /\
    (add_scp i = true -> pinned i (scp_h (proj a) m) (at_ (pin_scp i) m)) /\
    (add_cs i = true -> pinned i (cs_h (proj a) m) (at_ (pin_cs i) m)).
  Proof.
    intros Ht m Hm. cbn [proj sf_h cr_h scp_h cs_h meat_e swd_h].
    refine (conj _ (conj _ (conj _ (conj _ (conj _ _))))); intros Hb.
    - apply pin_conv. rewrite <- Ht. apply (Feasible_pin_sw i ty a F m Hb Hm).
    - apply pinned_1, pin_conv. rewrite <- Ht. apply (Feasible_pin_cr i ty a F m Hb Hm).
    - apply pinned_1, pin_conv. rewrite <- Ht. apply (Feasible_pin_sf i ty a F m Hb Hm).
    - apply pinned_1, pin_conv. rewrite <- Ht. apply (Feasible_pin_meat i ty a F m Hb Hm).
    - apply pinned_1, pin_conv. rewrite <- Ht. apply (Feasible_pin_scp i ty a F m Hb Hm).
    - apply pinned_1, pin_conv. rewrite <- Ht. apply (Feasible_pin_cs i ty a F m Hb Hm).
  Qed.

  (* ---- consumed = percent ---- *)
  Hypothesis Hneed : 0 < need i.

  Lemma snd_consumed : ty = ToHumans -> forall m, (m < NM i)%nat -> a Consumed m == percent i (proj a) m.
  Proof.
    intros Ht m Hm. pose proof (Feasible_consumed i ty a F m Hm) as R. rewrite Ht in R.
    apply sat_rows_consumed_humans in R; [exact R | intro HE; lra].
  Qed.

  Lemma cap_scale ch K C : C == K / need i * 100 -> ch / 100 * (need i / 100) * C == ch / 100 * K.
  Proof. intros HC. rewrite HC. field. intro HE; lra. Qed.

  Lemma caps_conv m r sh sf sb ch cf cb :
    (m < NM i)%nat ->
    caps_food_spec i ty a m r sh sf sb ch cf cb ->
    resilient_caps i ty (proj a) m r (a sh) (a sf) (a sb) ch cf cb.
  Proof.
    intros Hm (H1 & H2 & H3). split; [|split; assumption].
    intros Ht. destruct (H1 Ht) as [H1a H1b]. split; [exact H1a|].
    rewrite (cap_scale ch (kcal i (proj a) m) (a Consumed m)) in H1b; [exact H1b|].
    apply (snd_consumed Ht m Hm).
  Qed.

  Lemma snd_caps : forall m, (m < NM i)%nat ->
    (add_sw i = true ->
       resilient_caps i ty (proj a) m (sw_kcals i) (swd_h (proj a)) (swd_f (proj a)) (swd_b (proj a))
                      (cap_sw_h i) (cap_sw_f i) (cap_sw_b i)) /\
    (add_scp i = true ->
       resilient_caps i ty (proj a) m 1 (scp_h (proj a)) (scp_f (proj a)) (scp_b (proj a))
                      (cap_scp_h i) (cap_scp_f i) (cap_scp_b i)) /\
    (add_cs i = true ->
       resilient_caps i ty (proj a) m 1 (cs_h (proj a)) (cs_f (proj a)) (cs_b (proj a))
                      (cap_cs_h i) (cap_cs_f i) (cap_cs_b i)).
  Proof.
    intros m Hm. pose proof (Feasible_caps i ty a F m Hm) as R. apply sat_rows_caps in R.
    destruct R as (R1 & R2 & R3).
    refine (conj _ (conj _ _)); intros Hb; apply (caps_conv m _ _ _ _ _ _ _ Hm); auto.
  Qed.

  Lemma c02_sound_physical : Physical i ty (proj a).
  Proof.
    constructor.
    - exact snd_nonneg.
    - exact snd_scp.
    - exact snd_cs.
    - exact snd_sf_stock.
    - exact snd_sf_first_year.
    - exact snd_sf_all_used.
    - exact snd_cr_stock.
    - exact snd_cr_all_used.
    - exact snd_meat_store.
    - exact snd_meat_monthly.
    - exact snd_sw_bounds.
    - exact snd_sw_first.
    - exact snd_sw_ledger.
    - exact snd_charge.
    - exact snd_ceiling.
    - exact snd_decreasing.
    - exact snd_pins.
    - exact snd_caps.
  Qed.

  Lemma snd_obj_humans : ty = ToHumans -> forall m, (m < NM i)%nat -> a Obj 0%nat <= percent i (proj a) m.
  Proof.
    intros Ht m Hm. pose proof (Feasible_objective i ty a F) as R. rewrite Ht in R.
    rewrite sat_rows_objective_humans in R. rewrite <- (snd_consumed Ht m Hm). apply R; exact Hm.
  Qed.

  Lemma snd_obj_animals : ty = ToAnimals -> a Obj 0%nat <= weighted_total i (proj a).
  Proof.
    intros Ht. pose proof (Feasible_objective i ty a F) as R. rewrite Ht in R.
    apply sat_rows_objective_animals in R. unfold weighted_total. psum2sumQ. exact R.
  Qed.
End Sound.

Lemma c02_sound_objective i ty a : 0 < need i -> Feasible i ty a -> achieves i ty (proj a) (a Obj 0%nat).
Proof.
  intros Hn F. destruct ty; cbn [achieves].
  - apply (snd_obj_humans i ToHumans a F Hn eq_refl).
  - apply (snd_obj_animals i ToAnimals a F eq_refl).
Qed.



(* ================================================================== *)
(* completeness: Physical x -> Feasible (extend x v)                   *)
(* ================================================================== *)

(* value v inside the horizon of a food that is present, 0 elsewhere *)
Definition inh (b : bool) (N m : nat) (v : Q) : Q := if b && (m <? N)%nat then v else 0.

Lemma inh_in b N m v : b = true -> (m < N)%nat -> inh b N m v = v.
Proof. intros -> Hm. unfold inh. apply Nat.ltb_lt in Hm. rewrite Hm. reflexivity. Qed.

Lemma inh_nonneg b N m v : (b = true -> (m < N)%nat -> 0 <= v) -> 0 <= inh b N m v.
Proof.
  intros H. unfold inh. destruct b; cbn [andb]; [|lra].
  destruct (Nat.ltb_spec m N); [apply H; auto | lra].
Qed.

(* the bookkeeping variables, defined from the cumulative flows *)
Definition extend (i : lp_in) (ty : opt_type) (x : alloc) (v : Q) : assignment :=
  fun s m =>
  match s with
  | SF_start => inh (add_sf i) (NM i) m
                    match m with O => sf0 i | S p => sf0 i - cum (sf_use i x) p end
  | SF_end => inh (add_sf i) (NM i) m (sf0 i - cum (sf_use i x) m)
  | SF_h => sf_h x m | SF_f => sf_f x m | SF_b => sf_b x m
  | SCP_h => scp_h x m | SCP_f => scp_f x m | SCP_b => scp_b x m
  | CS_h => cs_h x m | CS_f => cs_f x m | CS_b => cs_b x m
  | M_start => inh (add_meat i && store_years i) (NM i) m
                   match m with O => meat_total i | S p => meat_total i - cum (meat_use i x) p end
  | M_end => inh (add_meat i && store_years i) (NM i) m (meat_total i - cum (meat_use i x) m)
  | M_eaten => meat_e x m
  | CR_storage => inh (add_cr i) (NM i) m (cum (at_ (crops_prod i)) m - cum (cr_use i x) m)
  | CR_consumed => cr_use i x m
  | CR_h => cr_h x m | CR_f => cr_f x m | CR_b => cr_b x m
  | SW_wet => swd_wet x m | SW_h => swd_h x m | SW_f => swd_f x m | SW_b => swd_b x m
  | SW_area => swd_area x m
  | Consumed => match ty with
                | ToHumans => inh true (NM i) m (percent i x m)
                | ToAnimals => 0
                end
  | Obj => match m with O => v | S _ => 0 end
  end.

Lemma proj_extend i ty x v : alloc_eq (proj (extend i ty x v)) x.
Proof. intros m. cbn. repeat (split; [reflexivity|]). reflexivity. Qed.

Lemma feed_sum_extend i ty x v m : feed_sum i (extend i ty x v) m = feed_tot i x m.
Proof. reflexivity. Qed.
Lemma biofuel_sum_extend i ty x v m : biofuel_sum i (extend i ty x v) m = bio_tot i x m.
Proof. reflexivity. Qed.
Lemma human_sum_extend i ty x v m : human_sum i (extend i ty x v) m = human_tot i x m.
Proof. reflexivity. Qed.

Lemma cum_S f p : cum f (S p) = cum f p + f (S p).
Proof. reflexivity. Qed.
Lemma cum_0 f : cum f 0 == f 0%nat.
Proof. unfold cum; cbn [psum]; ring. Qed.

Lemma psum_nonneg f n : (forall m, 0 <= f m) -> 0 <= psum f n.
Proof. intros H. rewrite psum_sumQ. apply sumQ_nonneg. intros; apply H. Qed.
Lemma cum_nonneg f m : (forall k, 0 <= f k) -> 0 <= cum f m.
Proof. intros H. apply psum_nonneg, H. Qed.

Section Complete.
  Variables (i : lp_in) (ty : opt_type) (x : alloc) (v : Q).
  Hypothesis P : Physical i ty x.
  Hypothesis A : admissible i.
  Hypothesis Hv : 0 <= v.
  Hypothesis Hach : achieves i ty x v.

  Let a := extend i ty x v.
  Let X := ph_nonneg i ty x P.

  Lemma need_pos : 0 < need i.
  Proof. destruct A as (_ & _ & _ & _ & _ & _ & H & _). exact H. Qed.
  Lemma g_sf : 0 < gross (w_sf i). Proof. apply gross_pos. apply A. Qed.
  Lemma g_cr : 0 < gross (w_cr i). Proof. apply gross_pos. apply A. Qed.
  Lemma g_meat : 0 < gross (w_meat i). Proof. apply gross_pos. apply A. Qed.

  Lemma sf_use_nonneg m : 0 <= sf_use i x m.
  Proof.
    unfold sf_use. destruct (X m) as (H1 & H2 & H3 & _).
    pose proof (Qmult_le_0_compat _ _ (Qlt_le_weak _ _ g_sf) H1). lra.
  Qed.
  Lemma cr_use_nonneg m : 0 <= cr_use i x m.
  Proof.
    unfold cr_use. destruct (X m) as (_ & _ & _ & H1 & H2 & H3 & _).
    pose proof (Qmult_le_0_compat _ _ (Qlt_le_weak _ _ g_cr) H1). lra.
  Qed.
  Lemma meat_use_nonneg m : 0 <= meat_use i x m.
  Proof.
    unfold meat_use. destruct (X m) as (_ & _ & _ & _ & _ & _ & _ & _ & _ & _ & _ & _ & H1 & _).
    apply (Qmult_le_0_compat _ _ (Qlt_le_weak _ _ g_meat) H1).
  Qed.

  (* ---- non-negativity of the extension ---- *)
  Lemma ext_nonneg : nonneg a.
  Proof.
    intros s m. pose proof (X m) as Xm. unfold a.
    destruct s; cbn [extend]; try tauto.
    - (* SF_start *) apply inh_nonneg. intros Hb Hm. destruct m as [|p].
      + pose proof (ph_sf_stock i ty x P Hb 0%nat Hm) as H. rewrite cum_0 in H.
        pose proof (sf_use_nonneg 0). lra.
      + assert (Hp : (p < NM i)%nat) by lia. pose proof (ph_sf_stock i ty x P Hb p Hp). lra.
    - (* SF_end *) apply inh_nonneg. intros Hb Hm. pose proof (ph_sf_stock i ty x P Hb m Hm). lra.
    - (* M_start *) apply inh_nonneg. intros Hb Hm. apply andb_true_iff in Hb. destruct Hb as [Hb R0].
      destruct m as [|p].
      + destruct (ph_meat_store i ty x P Hb R0 0%nat Hm) as [_ H]. rewrite cum_0 in H.
        pose proof (meat_use_nonneg 0). lra.
      + assert (Hp : (p < NM i)%nat) by lia. destruct (ph_meat_store i ty x P Hb R0 p Hp) as [_ H]. lra.
    - (* M_end *) apply inh_nonneg. intros Hb Hm. apply andb_true_iff in Hb. destruct Hb as [Hb R0].
      destruct (ph_meat_store i ty x P Hb R0 m Hm) as [_ H]. lra.
    - (* CR_storage *) apply inh_nonneg. intros Hb Hm. pose proof (ph_cr_stock i ty x P Hb m Hm). lra.
    - (* CR_consumed *) apply cr_use_nonneg.
    - (* Consumed *) destruct ty; [|lra]. apply inh_nonneg. intros _ Hm.
      pose proof (Hach m Hm). lra.
    - (* Obj *) destruct m; [exact Hv | lra].
  Qed.

  Lemma ty_cases : ty = ToHumans \/ ty = ToAnimals.
  Proof. destruct ty; auto. Qed.

  (* ---- pins ---- *)
  Lemma ext_pin c s pin m :
    (ty = ToAnimals -> pinned i (c * a s m) (at_ pin m)) -> Forall (sat a) (rows_pin i ty c s pin m).
  Proof.
    intros H. destruct ty.
    - apply sat_rows_pin_humans. exact I.
    - apply sat_rows_pin_animals. apply (H eq_refl).
  Qed.

  Lemma pinned_1' w p : pinned i w p -> pinned i (1 * w) p.
  Proof. unfold pinned. intros [H1 H2]. split; lra. Qed.

  (* ---- SCP, CS ---- *)
  Lemma ext_scp m : add_scp i = true -> (m < NM i)%nat ->
    Forall (sat a) (rows_scp i m) /\ Forall (sat a) (rows_pin i ty 1 SCP_h (pin_scp i) m).
  Proof.
    intros Hb Hm. split.
    - apply sat_rows_scp. exact (ph_scp i ty x P Hb m Hm).
    - apply ext_pin. intros Ht. apply pinned_1'. apply (ph_pins i ty x P Ht m Hm); exact Hb.
  Qed.

  Lemma ext_cs m : add_cs i = true -> (m < NM i)%nat ->
    Forall (sat a) (rows_cs i m) /\ Forall (sat a) (rows_pin i ty 1 CS_h (pin_cs i) m).
  Proof.
    intros Hb Hm. split.
    - apply sat_rows_cs. exact (ph_cs i ty x P Hb m Hm).
    - apply ext_pin. intros Ht. apply pinned_1'. apply (ph_pins i ty x P Ht m Hm); exact Hb.
  Qed.

  (* ---- stored food ---- *)
  Lemma a_sf_start_0 : add_sf i = true -> (0 < NM i)%nat -> a SF_start 0%nat = sf0 i.
  Proof. intros Hb Hm. unfold a; cbn [extend]. apply inh_in; assumption. Qed.
  Lemma a_sf_start_S p : add_sf i = true -> (S p < NM i)%nat -> a SF_start (S p) = sf0 i - cum (sf_use i x) p.
  Proof. intros Hb Hm. unfold a; cbn [extend]. apply inh_in; assumption. Qed.
  Lemma a_sf_end m : add_sf i = true -> (m < NM i)%nat -> a SF_end m = sf0 i - cum (sf_use i x) m.
  Proof. intros Hb Hm. unfold a; cbn [extend]. apply inh_in; assumption. Qed.

  Lemma ext_sf_eaten_O : add_sf i = true -> (0 < NM i)%nat -> sf_eaten_eq i a 0.
  Proof.
    intros Hb Hm. unfold sf_eaten_eq. rewrite (a_sf_end 0 Hb Hm), (a_sf_start_0 Hb Hm), cum_0.
    unfold sf_use, a; cbn [extend]. lra.
  Qed.
  Lemma ext_sf_eaten_S p : add_sf i = true -> (S p < NM i)%nat -> sf_eaten_eq i a (S p).
  Proof.
    intros Hb Hm. unfold sf_eaten_eq. rewrite (a_sf_end (S p) Hb Hm), (a_sf_start_S p Hb Hm), cum_S.
    unfold sf_use at 2. unfold a; cbn [extend]. lra.
  Qed.
  Lemma ext_sf_link p : add_sf i = true -> (S p < NM i)%nat -> a SF_start (S p) == a SF_end p.
  Proof.
    intros Hb Hm. rewrite (a_sf_start_S p Hb Hm), (a_sf_end p Hb) by lia. reflexivity.
  Qed.

  Lemma ext_sf m : add_sf i = true -> (m < NM i)%nat ->
    Forall (sat a) (rows_sf i ty m) /\ Forall (sat a) (rows_pin i ty 1 SF_h (pin_sf i) m).
  Proof.
    intros Hb Hm. split.
    - destruct (store_years i) eqn:R0.
      + destruct m as [|p].
        * apply (sat_rows_sf_store_O i ty a R0). split; [rewrite (a_sf_start_0 Hb Hm); reflexivity | apply ext_sf_eaten_O; assumption].
        * apply (sat_rows_sf_store_S i ty a p R0).
          split; [apply ext_sf_link; assumption | split; [apply ext_sf_eaten_S; assumption|]].
          intros E Ht. rewrite (a_sf_end (S p) Hb Hm).
          assert (HN : (2 <= NM i)%nat) by lia.
          pose proof (ph_sf_all_used i ty x P Hb R0 Ht HN) as H.
          replace (NM i) with (S (S p)) in H by lia. change (psum (sf_use i x) (S (S p))) with (cum (sf_use i x) (S p)) in H.
          lra.
      + destruct m as [|p].
        * apply (sat_rows_sf_nostore_O i ty a R0). split; [rewrite (a_sf_start_0 Hb Hm); reflexivity | apply ext_sf_eaten_O; assumption].
        * destruct (le_lt_dec (S p) 12) as [L|L].
          -- apply (sat_rows_sf_nostore_first_year i ty a p R0 L).
             split; [apply ext_sf_link; assumption | apply ext_sf_eaten_S; assumption].
          -- apply (sat_rows_sf_nostore_later i ty a p R0 L).
             destruct (ph_sf_first_year i ty x P Hb R0 (S p) Hm L) as (H1 & H2 & H3).
             repeat (split; [assumption|]). apply ext_sf_link; assumption.
    - apply ext_pin. intros Ht. apply pinned_1'. apply (ph_pins i ty x P Ht m Hm); exact Hb.
  Qed.

  (* ---- crops ---- *)
  Lemma a_cr_storage m : add_cr i = true -> (m < NM i)%nat ->
    a CR_storage m = cum (at_ (crops_prod i)) m - cum (cr_use i x) m.
  Proof. intros Hb Hm. unfold a; cbn [extend]. apply inh_in; assumption. Qed.

  Lemma ext_cr_consumed m : cr_consumed_eq i a m.
  Proof. unfold cr_consumed_eq, a; cbn [extend]. unfold cr_use. reflexivity. Qed.

  Lemma ext_cr m : add_cr i = true -> (m < NM i)%nat ->
    Forall (sat a) (rows_crops i ty m) /\ Forall (sat a) (rows_pin i ty 1 CR_h (pin_cr i) m).
  Proof.
    intros Hb Hm. split.
    - destruct m as [|p].
      + apply sat_rows_crops_O. split; [apply ext_cr_consumed|].
        rewrite (a_cr_storage 0 Hb Hm), !cum_0. unfold a; cbn [extend]. lra.
      + apply sat_rows_crops_S. split; [apply ext_cr_consumed|]. split.
        * rewrite (a_cr_storage (S p) Hb Hm), (a_cr_storage p Hb) by lia. rewrite !cum_S.
          unfold a; cbn [extend]. lra.
        * intros E Ht. rewrite (a_cr_storage (S p) Hb Hm).
          assert (HN : (2 <= NM i)%nat) by lia.
          pose proof (ph_cr_all_used i ty x P Hb Ht HN) as H.
          replace (NM i) with (S (S p)) in H by lia.
          change (psum (cr_use i x) (S (S p))) with (cum (cr_use i x) (S p)) in H.
          change (psum (at_ (crops_prod i)) (S (S p))) with (cum (at_ (crops_prod i)) (S p)) in H.
          lra.
    - apply ext_pin. intros Ht. apply pinned_1'. apply (ph_pins i ty x P Ht m Hm); exact Hb.
  Qed.

  (* ---- meat ---- *)
  Lemma a_m_start_0 : add_meat i = true -> store_years i = true -> (0 < NM i)%nat -> a M_start 0%nat = meat_total i.
  Proof. intros Hb R0 Hm. unfold a; cbn [extend]. apply inh_in; [rewrite Hb, R0; reflexivity | assumption]. Qed.
  Lemma a_m_start_S p : add_meat i = true -> store_years i = true -> (S p < NM i)%nat ->
    a M_start (S p) = meat_total i - cum (meat_use i x) p.
  Proof. intros Hb R0 Hm. unfold a; cbn [extend]. apply inh_in; [rewrite Hb, R0; reflexivity | assumption]. Qed.
  Lemma a_m_end m : add_meat i = true -> store_years i = true -> (m < NM i)%nat ->
    a M_end m = meat_total i - cum (meat_use i x) m.
  Proof. intros Hb R0 Hm. unfold a; cbn [extend]. apply inh_in; [rewrite Hb, R0; reflexivity | assumption]. Qed.

  Lemma ext_meat m : add_meat i = true -> (m < NM i)%nat ->
    Forall (sat a) (rows_meat i m) /\ Forall (sat a) (rows_pin i ty 1 M_eaten (pin_meat i) m).
  Proof.
    intros Hb Hm. split.
    - destruct (store_years i) eqn:R0.
      + destruct (ph_meat_store i ty x P Hb R0 m Hm) as [H1 H2].
        destruct m as [|p].
        * apply (sat_rows_meat_store_O i a R0).
          rewrite (a_m_start_0 Hb R0 Hm), (a_m_end 0 Hb R0 Hm). rewrite cum_0 in *.
          change (meat_use i x 0) with (gross (w_meat i) * meat_e x 0%nat) in *.
          unfold a; cbn [extend]. repeat split; lra.
        * apply (sat_rows_meat_store_S i a p R0).
          rewrite (a_m_start_S p Hb R0 Hm), (a_m_end (S p) Hb R0 Hm), (a_m_end p Hb R0) by lia.
          rewrite cum_S in *. pose proof (cum_nonneg (meat_use i x) p meat_use_nonneg).
          change (meat_use i x (S p)) with (gross (w_meat i) * meat_e x (S p)) in *.
          unfold a; cbn [extend]. repeat split; lra.
      + apply (sat_rows_meat_nostore i a m R0). exact (ph_meat_monthly i ty x P Hb R0 m Hm).
    - apply ext_pin. intros Ht. apply pinned_1'. apply (ph_pins i ty x P Ht m Hm); exact Hb.
  Qed.

  (* ---- seaweed ---- *)
  Lemma ext_sw m : add_sw i = true -> (m < NM i)%nat ->
    Forall (sat a) (rows_seaweed i m) /\ Forall (sat a) (rows_pin i ty (sw_kcals i) SW_h (pin_sw i) m).
  Proof.
    intros Hb Hm. split.
    - destruct m as [|p].
      + apply sat_rows_seaweed_O. split.
        * exact (ph_sw_bounds i ty x P Hb 0%nat Hm).
        * exact (ph_sw_first i ty x P Hb Hm).
      + apply sat_rows_seaweed_S. split.
        * exact (ph_sw_bounds i ty x P Hb (S p) Hm).
        * exact (ph_sw_ledger i ty x P Hb p Hm).
    - apply ext_pin. intros Ht. apply (ph_pins i ty x P Ht m Hm); exact Hb.
  Qed.

  (* ---- feed / biofuel totals ---- *)
  Lemma ext_feed_biofuel m : (m < NM i)%nat -> Forall (sat a) (rows_feed_biofuel i ty m).
  Proof.
    intros Hm. destruct (has_nonhuman i) eqn:Hc.
    - destruct ty_cases as [Ht|Ht].
      + rewrite Ht. apply (sat_rows_feed_biofuel_humans i a m Hc). exact (ph_charge i ty x P Ht Hc m Hm).
      + rewrite Ht. destruct m as [|p].
        * apply (sat_rows_feed_biofuel_animals_O i a Hc). exact (ph_ceiling i ty x P Ht Hc 0%nat Hm).
        * apply (sat_rows_feed_biofuel_animals_S i a p Hc).
          destruct (ph_ceiling i ty x P Ht Hc (S p) Hm) as [H1 H2].
          destruct (ph_decreasing i ty x P Ht Hc p Hm) as [H3 H4].
          repeat split; assumption.
    - apply sat_rows_feed_biofuel_none; [exact Hc | exact I].
  Qed.

  (* ---- consumed ---- *)
  Lemma a_consumed m : ty = ToHumans -> (m < NM i)%nat -> a Consumed m = percent i x m.
  Proof. intros Ht Hm. unfold a; cbn [extend]. rewrite Ht. apply inh_in; [reflexivity | assumption]. Qed.

  Lemma ext_consumed m : (m < NM i)%nat -> Forall (sat a) (rows_consumed i ty m).
  Proof.
    intros Hm. destruct ty_cases as [Ht|Ht].
    - rewrite Ht. apply sat_rows_consumed_humans; [pose proof need_pos; intro HE; lra|].
      rewrite (a_consumed m Ht Hm). reflexivity.
    - rewrite Ht. apply sat_rows_consumed_animals. exact I.
  Qed.

  (* ---- caps ---- *)
  Lemma ext_caps_food m r sh sf sb ch cf cb :
    (m < NM i)%nat ->
    resilient_caps i ty x m r (a sh) (a sf) (a sb) ch cf cb ->
    caps_food_spec i ty a m r sh sf sb ch cf cb.
  Proof.
    intros Hm (H1 & H2 & H3). split; [|split; assumption].
    intros Ht. destruct (H1 Ht) as [H1a H1b]. split; [exact H1a|].
    rewrite (cap_scale i need_pos ch (kcal i x m) (a Consumed m)); [exact H1b|].
    rewrite (a_consumed m Ht Hm). reflexivity.
  Qed.

  Lemma ext_caps m : (m < NM i)%nat -> Forall (sat a) (rows_caps i ty m).
  Proof.
    intros Hm. apply sat_rows_caps. destruct (ph_caps i ty x P m Hm) as (H1 & H2 & H3).
    refine (conj _ (conj _ _)); intros Hb; apply ext_caps_food; auto.
  Qed.

  (* ---- objective ---- *)
  Lemma ext_objective : Forall (sat a) (rows_objective i ty).
  Proof.
    destruct ty_cases as [Ht|Ht].
    - rewrite Ht. apply sat_rows_objective_humans. intros m Hm. rewrite (a_consumed m Ht Hm).
      unfold a; cbn [extend]. revert Hach. rewrite Ht. cbn [achieves]. intros H; apply H; exact Hm.
    - rewrite Ht. apply sat_rows_objective_animals. unfold a at 1; cbn [extend].
      revert Hach. rewrite Ht. cbn [achieves]. unfold weighted_total.
      rewrite (psum_sumQ (feed_tot i x)), (psum_sumQ (bio_tot i x)). intros H; exact H.
  Qed.

  Lemma extend_feasible : Feasible i ty (extend i ty x v).
  Proof.
    apply Feasible_char. fold a.
    split; [exact ext_nonneg|].
    split; [intros Hb m Hm; apply ext_sw; assumption|].
    split; [intros Hb m Hm; apply ext_cr; assumption|].
    split; [intros Hb m Hm; apply ext_sf; assumption|].
    split; [intros Hb m Hm; apply ext_meat; assumption|].
    split; [intros Hb m Hm; apply ext_scp; assumption|].
    split; [intros Hb m Hm; apply ext_cs; assumption|].
    split; [|exact ext_objective].
    intros m Hm. split; [apply ext_feed_biofuel; assumption|].
    split; [apply ext_consumed; assumption | apply ext_caps; assumption].
  Qed.
End Complete.



(* ================================================================== *)
(* main statements                                                     *)
(* ================================================================== *)

Lemma achieves_mono i ty x v w : v <= w -> achieves i ty x w -> achieves i ty x v.
Proof.
  intros L H. destruct ty; cbn [achieves] in *.
  - intros m Hm. specialize (H m Hm). lra.
  - lra.
Qed.

Lemma c02_sound i ty a :
  0 < need i -> Feasible i ty a ->
  Physical i ty (proj a) /\ achieves i ty (proj a) (a Obj 0%nat).
Proof.
  intros Hn F. split; [apply c02_sound_physical; assumption | apply c02_sound_objective; assumption].
Qed.

Lemma c02_complete i ty x :
  admissible i -> Physical i ty x ->
  forall v, 0 <= v -> achieves i ty x v ->
  exists a, Feasible i ty a /\ alloc_eq (proj a) x /\ a Obj 0%nat == v.
Proof.
  intros A P v Hv Hach. exists (extend i ty x v). split; [|split].
  - apply extend_feasible; assumption.
  - apply proj_extend.
  - reflexivity.
Qed.

Lemma admissible_need i : admissible i -> 0 < need i.
Proof. intros (_ & _ & _ & _ & _ & _ & H & _). exact H. Qed.

Lemma c02_same_optimum i ty v :
  admissible i -> 0 <= v ->
  ((exists a, Feasible i ty a /\ v <= a Obj 0%nat) <-> (exists x, Physical i ty x /\ achieves i ty x v)).
Proof.
  intros A Hv. split.
  - intros (a & F & L). exists (proj a).
    destruct (c02_sound i ty a (admissible_need i A) F) as [P Hach].
    split; [exact P | apply (achieves_mono i ty (proj a) v (a Obj 0%nat) L Hach)].
  - intros (x & P & Hach). destruct (c02_complete i ty x A P v Hv Hach) as (a & F & _ & E).
    exists a. split; [exact F | lra].
Qed.

(* an upper bound on the LP's objective (e.g. from a dual certificate) is an upper bound on what
   any physically feasible allocation achieves, and conversely *)
Lemma c02_upper_bound_transfer i ty vstar :
  admissible i -> 0 <= vstar ->
  ((forall a, Feasible i ty a -> a Obj 0%nat <= vstar) <->
   (forall x w, Physical i ty x -> achieves i ty x w -> w <= vstar)).
Proof.
  intros A Hs. split.
  - intros H x w P Hach. destruct (Qlt_le_dec w 0) as [L|L]; [lra|].
    destruct (c02_complete i ty x A P w L Hach) as (a & F & _ & E). specialize (H a F). lra.
  - intros H a F. destruct (c02_sound i ty a (admissible_need i A) F) as [P Hach].
    apply (H (proj a) (a Obj 0%nat) P Hach).
Qed.

(* ================================================================== *)
(* the max-min objective is faithful                                   *)
(* ================================================================== *)

Definition qmin (p q : Q) : Q := if Qlt_le_dec p q then p else q.

Lemma qmin_l p q : qmin p q <= p.
Proof. unfold qmin. destruct (Qlt_le_dec p q); lra. Qed.
Lemma qmin_r p q : qmin p q <= q.
Proof. unfold qmin. destruct (Qlt_le_dec p q); lra. Qed.
Lemma qmin_glb w p q : w <= p -> w <= q -> w <= qmin p q.
Proof. unfold qmin. destruct (Qlt_le_dec p q); intros; lra. Qed.
Lemma qmin_cases p q : qmin p q = p \/ qmin p q = q.
Proof. unfold qmin. destruct (Qlt_le_dec p q); auto. Qed.

(* min (f 0, ..., f n) *)
Fixpoint min_upto (f : nat -> Q) (n : nat) : Q :=
  match n with
  | O => f O
  | S k => qmin (min_upto f k) (f (S k))
  end.

Lemma min_upto_le f n k : (k <= n)%nat -> min_upto f n <= f k.
Proof.
  induction n as [|n IH]; intros Hk; cbn [min_upto].
  - assert (k = O) by lia. subst. lra.
  - destruct (Nat.eq_dec k (S n)) as [->|Hne]; [apply qmin_r|].
    pose proof (qmin_l (min_upto f n) (f (S n))). assert (min_upto f n <= f k) by (apply IH; lia). lra.
Qed.

Lemma min_upto_glb f n w : (forall k, (k <= n)%nat -> w <= f k) -> w <= min_upto f n.
Proof.
  induction n as [|n IH]; intros H; cbn [min_upto].
  - apply H; lia.
  - apply qmin_glb; [apply IH; intros; apply H; lia | apply H; lia].
Qed.

Lemma min_upto_attained f n : exists k, (k <= n)%nat /\ min_upto f n = f k.
Proof.
  induction n as [|n (k & Hk & E)]; cbn [min_upto].
  - exists O. split; [lia | reflexivity].
  - destruct (qmin_cases (min_upto f n) (f (S n))) as [H|H]; rewrite H.
    + exists k. split; [lia | exact E].
    + exists (S n). split; [lia | reflexivity].
Qed.

(* the worst month's percent fed of an assignment (NM i >= 1) *)
Definition worst_month (i : lp_in) (a : assignment) : Q := min_upto (a Consumed) (NM i - 1).

(* a, with the objective variable replaced by w *)
Definition set_obj (a : assignment) (w : Q) : assignment :=
  fun s m => match s, m with Obj, O => w | _, _ => a s m end.

Definition is_obj (s : slot) : bool := match s with Obj => true | _ => false end.
Definition no_obj_terms (l : list (Q * var)) : bool := forallb (fun cv => negb (is_obj (fst (snd cv)))) l.
Definition no_obj_row (r : row) : bool := no_obj_terms (lhs r).

Lemma set_obj_other a w s m : is_obj s = false -> set_obj a w s m = a s m.
Proof. destruct s; cbn; intros H; try reflexivity; discriminate H. Qed.

Lemma eval_set_obj a w l : no_obj_terms l = true -> eval (set_obj a w) l = eval a l.
Proof.
  induction l as [|[c [s m]] l IH]; cbn [no_obj_terms forallb eval fst snd]; [reflexivity|].
  intros H. apply andb_true_iff in H. destruct H as [H1 H2]. apply negb_true_iff in H1.
  rewrite (set_obj_other a w s m H1). fold (no_obj_terms l) in H2. rewrite (IH H2). reflexivity.
Qed.

Lemma sat_set_obj a w r : no_obj_row r = true -> sat a r -> sat (set_obj a w) r.
Proof. unfold no_obj_row, sat. intros H. rewrite (eval_set_obj a w _ H). tauto. Qed.

Lemma Forall_sat_set_obj a w l :
  forallb no_obj_row l = true -> Forall (sat a) l -> Forall (sat (set_obj a w)) l.
Proof.
  induction l as [|r l IH]; cbn [forallb]; intros H F; [constructor|].
  apply andb_true_iff in H. destruct H as [H1 H2]. inversion F; subst.
  constructor; [apply sat_set_obj; assumption | apply IH; assumption].
Qed.

(* no row family other than the objective rows mentions the objective variable *)
Lemma noobj_seaweed i m : forallb no_obj_row (rows_seaweed i m) = true.
Proof. destruct m; reflexivity. Qed.
Lemma noobj_pin i ty c s pin m : is_obj s = false -> forallb no_obj_row (rows_pin i ty c s pin m) = true.
Proof.
  intros H. unfold rows_pin. destruct ty; [reflexivity|]. destruct (pin_bounds i).
  cbn. rewrite H. reflexivity.
Qed.
Lemma noobj_crops i ty m : forallb no_obj_row (rows_crops i ty m) = true.
Proof. unfold rows_crops. destruct m; [reflexivity|]. destruct (Nat.eqb (S m) (NM i - 1)), ty; reflexivity. Qed.
Lemma noobj_sf i ty m : forallb no_obj_row (rows_sf i ty m) = true.
Proof.
  unfold rows_sf. destruct (store_years i), m; try reflexivity.
  - destruct (Nat.eqb (S m) (NM i - 1)), ty; reflexivity.
  - destruct (Nat.ltb 12 (S m)); reflexivity.
Qed.
Lemma noobj_meat i m : forallb no_obj_row (rows_meat i m) = true.
Proof. unfold rows_meat. destruct (store_years i), m; reflexivity. Qed.
Lemma noobj_scp i m : forallb no_obj_row (rows_scp i m) = true.
Proof. reflexivity. Qed.
Lemma noobj_cs i m : forallb no_obj_row (rows_cs i m) = true.
Proof. reflexivity. Qed.
Lemma noobj_feed_biofuel i ty m : forallb no_obj_row (rows_feed_biofuel i ty m) = true.
Proof.
  unfold rows_feed_biofuel, feed_terms, biofuel_terms, opt. destruct (has_nonhuman i); [|reflexivity].
  destruct (add_sf i), (add_cr i), (add_sw i), (add_cs i), (add_scp i), ty, m; reflexivity.
Qed.
Lemma noobj_consumed i ty m : forallb no_obj_row (rows_consumed i ty m) = true.
Proof.
  unfold rows_consumed, human_terms, opt. destruct ty; [|reflexivity].
  destruct (add_sf i), (add_cr i), (add_sw i), (add_meat i), (add_cs i), (add_scp i); reflexivity.
Qed.
Lemma noobj_caps i ty m : forallb no_obj_row (rows_caps i ty m) = true.
Proof.
  unfold rows_caps, rows_caps_food. destruct (add_sw i), (add_scp i), (add_cs i), ty; reflexivity.
Qed.

Lemma c02_obj_le_consumed i a :
  Feasible i ToHumans a -> forall m, (m < NM i)%nat -> a Obj 0%nat <= a Consumed m.
Proof. intros F. apply sat_rows_objective_humans. apply (Feasible_objective i ToHumans a F). Qed.

Lemma c02_obj_le_worst i a :
  (0 < NM i)%nat -> Feasible i ToHumans a -> a Obj 0%nat <= worst_month i a.
Proof.
  intros HN F. apply min_upto_glb. intros k Hk. apply (c02_obj_le_consumed i a F). lia.
Qed.

Lemma c02_worst_feasible i a :
  (0 < NM i)%nat -> Feasible i ToHumans a -> Feasible i ToHumans (set_obj a (worst_month i a)).
Proof.
  intros HN F. pose proof (Feasible_nonneg _ _ _ F) as NN.
  set (w := worst_month i a). apply Feasible_char.
  split.
  { intros s m. destruct s; try apply NN. destruct m; [|apply NN]. cbn.
    apply min_upto_glb. intros k _. apply NN. }
  split; [intros Hb m Hm; split; apply Forall_sat_set_obj;
          [apply noobj_seaweed | apply (Feasible_seaweed _ _ _ F m Hb Hm)
          | apply noobj_pin; reflexivity | apply (Feasible_pin_sw _ _ _ F m Hb Hm)]|].
  split; [intros Hb m Hm; split; apply Forall_sat_set_obj;
          [apply noobj_crops | apply (Feasible_crops _ _ _ F m Hb Hm)
          | apply noobj_pin; reflexivity | apply (Feasible_pin_cr _ _ _ F m Hb Hm)]|].
  split; [intros Hb m Hm; split; apply Forall_sat_set_obj;
          [apply noobj_sf | apply (Feasible_sf _ _ _ F m Hb Hm)
          | apply noobj_pin; reflexivity | apply (Feasible_pin_sf _ _ _ F m Hb Hm)]|].
  split; [intros Hb m Hm; split; apply Forall_sat_set_obj;
          [apply noobj_meat | apply (Feasible_meat _ _ _ F m Hb Hm)
          | apply noobj_pin; reflexivity | apply (Feasible_pin_meat _ _ _ F m Hb Hm)]|].
  split; [intros Hb m Hm; split; apply Forall_sat_set_obj;
          [apply noobj_scp | apply (Feasible_scp _ _ _ F m Hb Hm)
          | apply noobj_pin; reflexivity | apply (Feasible_pin_scp _ _ _ F m Hb Hm)]|].
  split; [intros Hb m Hm; split; apply Forall_sat_set_obj;
          [apply noobj_cs | apply (Feasible_cs _ _ _ F m Hb Hm)
          | apply noobj_pin; reflexivity | apply (Feasible_pin_cs _ _ _ F m Hb Hm)]|].
  split.
  - intros m Hm. split; [|split]; apply Forall_sat_set_obj.
    + apply noobj_feed_biofuel.
    + apply (Feasible_feed_biofuel _ _ _ F m Hm).
    + apply noobj_consumed.
    + apply (Feasible_consumed _ _ _ F m Hm).
    + apply noobj_caps.
    + apply (Feasible_caps _ _ _ F m Hm).
  - apply sat_rows_objective_humans. intros m Hm. cbn [set_obj]. unfold w, worst_month.
    apply min_upto_le. lia.
Qed.

(* at an optimum the objective equals the worst month *)
Lemma c02_objective_faithful i a :
  (0 < NM i)%nat -> Feasible i ToHumans a ->
  (forall m, (m < NM i)%nat -> a Obj 0%nat <= a Consumed m) /\
  Feasible i ToHumans (set_obj a (worst_month i a)) /\
  a Obj 0%nat <= set_obj a (worst_month i a) Obj 0%nat /\
  (exists k, (k < NM i)%nat /\ worst_month i a = a Consumed k) /\
  ((forall b, Feasible i ToHumans b -> b Obj 0%nat <= a Obj 0%nat) -> a Obj 0%nat == worst_month i a).
Proof.
  intros HN F. split; [apply c02_obj_le_consumed; exact F|].
  split; [apply c02_worst_feasible; assumption|].
  split; [cbn [set_obj]; apply c02_obj_le_worst; assumption|].
  split.
  - destruct (min_upto_attained (a Consumed) (NM i - 1)) as (k & Hk & E).
    exists k. split; [lia | exact E].
  - intros Hopt. pose proof (c02_obj_le_worst i a HN F).
    pose proof (Hopt _ (c02_worst_feasible i a HN F)) as H1. cbn [set_obj] in H1. lra.
Qed.



(* ================================================================== *)
(* non-vacuity: a 3-month instance with every food present             *)
(* ================================================================== *)

Definition ex_in : lp_in :=
  {| NM := 3;
     add_sw := true; add_cr := true; add_sf := true; add_meat := true; add_scp := true; add_cs := true;
     store_years := true;
     pop := 1000000000; kcals_monthly_pp := 100; need := 100;
     w_sf := 0; w_cr := 0; w_meat := 0; w_scp := 0; w_cs := 0; w_sw := 0;
     sf0 := 30; meat_total := 9;
     sw_kcals := 1; sw_init := 1; sw_init_area := 1; sw_min_density := 1; sw_max_density := 10;
     sw_harvest_loss := 0; relocated := false; harvest_delay := 0;
     cap_sw_h := 100; cap_sw_f := 100; cap_sw_b := 100;
     cap_scp_h := 100; cap_scp_f := 100; cap_scp_b := 100;
     cap_cs_h := 100; cap_cs_f := 100; cap_cs_b := 100;
     crops_prod := [20; 20; 20]; milk := [1; 1; 1]; greenhouse := [1; 1; 1]; fish := [1; 1; 1];
     scp_prod := [5; 5; 5]; cs_prod := [5; 5; 5]; built_area := [1; 1; 1]; growth := [100; 100; 100];
     feed_charge := [1; 1; 1]; biofuel_charge := [1; 1; 1];
     meat_monthly := [3; 3; 3]; meat_running := [3; 6; 9];
     max_feed := [1; 1; 1]; max_biofuel := [1; 1; 1];
     pin_cr := [18; 18; 18]; pin_sf := [10; 10; 10]; pin_meat := [3; 3; 3];
     pin_scp := [5; 5; 5]; pin_cs := [5; 5; 5]; pin_sw := [0; 1; 1] |}.

Definition s3 (p q r : Q) (m : nat) : Q :=
  match m with O => p | S O => q | S (S O) => r | _ => 0 end.

Definition ex_alloc : alloc :=
  {| sf_h := s3 10 10 10; sf_f := s3 0 0 0; sf_b := s3 0 0 0;
     cr_h := s3 18 18 18; cr_f := s3 1 1 1; cr_b := s3 1 1 1;
     scp_h := s3 5 5 5; scp_f := s3 0 0 0; scp_b := s3 0 0 0;
     cs_h := s3 5 5 5; cs_f := s3 0 0 0; cs_b := s3 0 0 0;
     meat_e := s3 3 3 3;
     swd_h := s3 0 1 1; swd_f := s3 0 0 0; swd_b := s3 0 0 0;
     swd_wet := s3 1 1 1; swd_area := s3 1 1 1 |}.

Ltac qc := vm_compute; first [reflexivity | discriminate].
Ltac qcs := vm_compute; repeat match goal with |- _ /\ _ => split end; first [reflexivity | discriminate].
Tactic Notation "month3" ident(m) hyp(Hm) tactic(tac) :=
  do 3 (destruct m as [|m]; [tac|]); exfalso; cbn in Hm; lia.

Lemma ex_admissible : admissible ex_in.
Proof. unfold admissible, waste_ok. qcs. Qed.

Lemma ex_physical ty : Physical ex_in ty ex_alloc.
Proof.
  constructor.
  - intros m. do 3 (destruct m as [|m]; [qcs|]). qcs.
  - intros _ m Hm. month3 m Hm qc.
  - intros _ m Hm. month3 m Hm qc.
  - intros _ m Hm. month3 m Hm qc.
  - intros _ H. discriminate H.
  - intros _ _ _ _. qc.
  - intros _ m Hm. month3 m Hm qc.
  - intros _ _ _. qc.
  - intros _ _ m Hm. month3 m Hm qcs.
  - intros _ H. discriminate H.
  - intros _ m Hm. month3 m Hm qcs.
  - intros _ _. qcs.
  - intros _ p Hm. do 2 (destruct p as [|p]; [qc|]). exfalso; cbn in Hm; lia.
  - intros _ _ m Hm. month3 m Hm qcs.
  - intros _ _ m Hm. month3 m Hm qcs.
  - intros _ _ p Hm. do 2 (destruct p as [|p]; [qcs|]). exfalso; cbn in Hm; lia.
  - intros _ m Hm. unfold pinned. month3 m Hm (repeat (split; [intros _; qcs|]); intros _; qcs).
  - intros m Hm. unfold resilient_caps. month3 m Hm
      (repeat (split; [intros _; split; [intros _; qcs | qcs]|]); intros _; split; [intros _; qcs | qcs]).
Qed.

Lemma ex_achieves_humans : achieves ex_in ToHumans ex_alloc 44.
Proof. intros m Hm. month3 m Hm qc. Qed.

Lemma ex_achieves_animals : achieves ex_in ToAnimals ex_alloc 3.
Proof. qc. Qed.

Lemma c02_nonvacuous_humans :
  admissible ex_in /\ Physical ex_in ToHumans ex_alloc /\ achieves ex_in ToHumans ex_alloc 44 /\
  exists a, Feasible ex_in ToHumans a /\ alloc_eq (proj a) ex_alloc /\ a Obj 0%nat == 44.
Proof.
  split; [exact ex_admissible|]. split; [apply ex_physical|]. split; [exact ex_achieves_humans|].
  apply c02_complete; [exact ex_admissible | apply ex_physical | qc | exact ex_achieves_humans].
Qed.

Lemma c02_nonvacuous_animals :
  Physical ex_in ToAnimals ex_alloc /\ achieves ex_in ToAnimals ex_alloc 3 /\
  exists a, Feasible ex_in ToAnimals a /\ alloc_eq (proj a) ex_alloc /\ a Obj 0%nat == 3.
Proof.
  split; [apply ex_physical|]. split; [exact ex_achieves_animals|].
  apply c02_complete; [exact ex_admissible | apply ex_physical | qc | exact ex_achieves_animals].
Qed.

(* the specification is not trivially satisfiable: using more stored food than there is, is rejected *)
Lemma c02_physical_rejects :
  ~ Physical ex_in ToHumans
      {| sf_h := s3 31 0 0; sf_f := s3 0 0 0; sf_b := s3 0 0 0;
         cr_h := s3 18 18 18; cr_f := s3 1 1 1; cr_b := s3 1 1 1;
         scp_h := s3 5 5 5; scp_f := s3 0 0 0; scp_b := s3 0 0 0;
         cs_h := s3 5 5 5; cs_f := s3 0 0 0; cs_b := s3 0 0 0;
         meat_e := s3 3 3 3;
         swd_h := s3 0 1 1; swd_f := s3 0 0 0; swd_b := s3 0 0 0;
         swd_wet := s3 1 1 1; swd_area := s3 1 1 1 |}.
Proof.
  intros P. pose proof (ph_sf_stock _ _ _ P eq_refl 0%nat ltac:(cbn; lia)) as H.
  vm_compute in H. apply H. reflexivity.
Qed.

