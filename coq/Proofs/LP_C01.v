(* C01 - reported allocations never use food that does not exist: consequences of
   `Feasible i ty a` (Model/LP.v) for an arbitrary input, horizon and assignment. *)
From Coq Require Import QArith List Bool Arith Lia Lqa.
From Allfed Require Import Model.LP Model.LPBool Proofs.LPChar Proofs.LPBoolSound.
Import ListNotations.
Open Scope Q_scope.

(* monthly use of each food as charged to its ledger (people's share grossed up for retail waste) *)
Definition sf_use (i : lp_in) (a : assignment) (k : nat) : Q :=
  gross (w_sf i) * a SF_h k + a SF_f k + a SF_b k.
Definition cr_use (i : lp_in) (a : assignment) (k : nat) : Q :=
  gross (w_cr i) * a CR_h k + a CR_f k + a CR_b k.
Definition meat_use (i : lp_in) (a : assignment) (k : nat) : Q :=
  gross (w_meat i) * a M_eaten k.
Definition scp_use (i : lp_in) (a : assignment) (k : nat) : Q :=
  gross (w_scp i) * a SCP_h k + a SCP_f k + a SCP_b k.
Definition cs_use (i : lp_in) (a : assignment) (k : nat) : Q :=
  gross (w_cs i) * a CS_h k + a CS_f k + a CS_b k.
Definition sw_use (i : lp_in) (a : assignment) (k : nat) : Q :=
  gross (w_sw i) * a SW_h k + a SW_f k + a SW_b k.

(* ================================================================== *)
(* any optimisation type                                              *)
(* ================================================================== *)
Section Any.
  Variables (i : lp_in) (ty : opt_type) (a : assignment).
  Hypothesis F : Feasible i ty a.

  (* ---------------- non-negativity ---------------- *)

  Lemma lpc01_nonneg : forall s m, 0 <= a s m.
  Proof. exact (Feasible_nonneg i ty a F). Qed.

  Lemma gross_use_nonneg w x y z : waste_ok w -> 0 <= x -> 0 <= y -> 0 <= z -> 0 <= gross w * x + y + z.
  Proof.
    intros Hw Hx Hy Hz. pose proof (gross_pos w Hw) as Hg.
    assert (0 <= gross w * x) by (apply Qmult_le_0_compat; lra). lra.
  Qed.

  Lemma lpc01_use_nonneg : admissible i -> forall m,
    0 <= sf_use i a m /\ 0 <= cr_use i a m /\ 0 <= meat_use i a m /\
    0 <= scp_use i a m /\ 0 <= cs_use i a m /\ 0 <= sw_use i a m.
  Proof.
    intros (A1 & A2 & A3 & A4 & A5 & A6 & _) m. pose proof lpc01_nonneg as Hn.
    unfold sf_use, cr_use, meat_use, scp_use, cs_use, sw_use.
    repeat split; try (apply gross_use_nonneg; auto).
    apply Qmult_le_0_compat; [pose proof (gross_pos _ A3); lra | apply Hn].
  Qed.

  (* ---------------- stored food ---------------- *)

  Lemma sf_ledger_store : add_sf i = true -> store_years i = true ->
    forall m, (m < NM i)%nat -> a SF_end m == sf0 i - csum (sf_use i a) m.
  Proof.
    intros Hb R. induction m as [|p IH]; intros Hm.
    - pose proof (Feasible_sf i ty a F 0 Hb Hm) as H.
      apply (sat_rows_sf_store_O i ty a R) in H. destruct H as [H1 H2].
      unfold sf_eaten_eq in H2. rewrite csum_0. unfold sf_use. lra.
    - assert (Hp : (p < NM i)%nat) by lia. specialize (IH Hp).
      pose proof (Feasible_sf i ty a F (S p) Hb Hm) as H.
      apply (sat_rows_sf_store_S i ty a p R) in H. destruct H as (H1 & H2 & _).
      unfold sf_eaten_eq in H2. rewrite csum_S. unfold sf_use in *. lra.
  Qed.

  Lemma sf_ledger_first_year : add_sf i = true -> store_years i = false ->
    forall m, (m <= 12)%nat -> (m < NM i)%nat -> a SF_end m == sf0 i - csum (sf_use i a) m.
  Proof.
    intros Hb R. induction m as [|p IH]; intros H12 Hm.
    - pose proof (Feasible_sf i ty a F 0 Hb Hm) as H.
      apply (sat_rows_sf_nostore_O i ty a R) in H. destruct H as [H1 H2].
      unfold sf_eaten_eq in H2. rewrite csum_0. unfold sf_use. lra.
    - assert (Hp : (p < NM i)%nat) by lia. assert (Hp12 : (p <= 12)%nat) by lia.
      specialize (IH Hp12 Hp).
      pose proof (Feasible_sf i ty a F (S p) Hb Hm) as H.
      apply (sat_rows_sf_nostore_first_year i ty a p R H12) in H. destruct H as (H1 & H2).
      unfold sf_eaten_eq in H2. rewrite csum_S. unfold sf_use in *. lra.
  Qed.

  (* first-year-only regime: nothing is taken from the stock after month 12 *)
  Lemma lpc01_stored_after_first_year : add_sf i = true -> store_years i = false ->
    forall m, (12 < m)%nat -> (m < NM i)%nat ->
    a SF_h m == 0 /\ a SF_f m == 0 /\ a SF_b m == 0.
  Proof.
    intros Hb R m H12 Hm. destruct m as [|p]; [lia|].
    pose proof (Feasible_sf i ty a F (S p) Hb Hm) as H.
    apply (sat_rows_sf_nostore_later i ty a p R H12) in H. tauto.
  Qed.

  Lemma sf_use_zero_after_first_year : add_sf i = true -> store_years i = false ->
    forall m, (12 < m)%nat -> (m < NM i)%nat -> sf_use i a m == 0.
  Proof.
    intros Hb R m H12 Hm.
    destruct (lpc01_stored_after_first_year Hb R m H12 Hm) as (H1 & H2 & H3).
    unfold sf_use. rewrite H1, H2, H3. ring.
  Qed.

  (* cumulative use of stored food never exceeds the initial stock (both regimes) *)
  Lemma lpc01_stored : add_sf i = true ->
    forall m, (m < NM i)%nat -> csum (sf_use i a) m <= sf0 i.
  Proof.
    intros Hb. destruct (store_years i) eqn:R.
    - intros m Hm. pose proof (sf_ledger_store Hb R m Hm) as H.
      pose proof (lpc01_nonneg SF_end m). lra.
    - induction m as [|p IH]; intros Hm.
      + pose proof (sf_ledger_first_year Hb R 0 ltac:(lia) Hm) as H.
        pose proof (lpc01_nonneg SF_end 0%nat). lra.
      + destruct (le_lt_dec (S p) 12) as [L|L].
        * pose proof (sf_ledger_first_year Hb R (S p) L Hm) as H.
          pose proof (lpc01_nonneg SF_end (S p)). lra.
        * rewrite csum_S, (sf_use_zero_after_first_year Hb R (S p) L Hm).
          assert (csum (sf_use i a) p <= sf0 i) by (apply IH; lia). lra.
  Qed.

  (* ---------------- outdoor crops ---------------- *)

  Lemma lpc01_crops_consumed : add_cr i = true ->
    forall m, (m < NM i)%nat -> a CR_consumed m == cr_use i a m.
  Proof.
    intros Hb m Hm. pose proof (Feasible_crops i ty a F m Hb Hm) as H.
    destruct m as [|p].
    - apply sat_rows_crops_O in H. destruct H as [H _]. exact H.
    - apply sat_rows_crops_S in H. destruct H as [H _]. exact H.
  Qed.

  Lemma crops_ledger : add_cr i = true ->
    forall m, (m < NM i)%nat ->
    a CR_storage m == csum (at_ (crops_prod i)) m - csum (a CR_consumed) m.
  Proof.
    intros Hb. induction m as [|p IH]; intros Hm.
    - pose proof (Feasible_crops i ty a F 0 Hb Hm) as H.
      apply sat_rows_crops_O in H. destruct H as [_ H]. rewrite !csum_0. lra.
    - assert (Hp : (p < NM i)%nat) by lia. specialize (IH Hp).
      pose proof (Feasible_crops i ty a F (S p) Hb Hm) as H.
      apply sat_rows_crops_S in H. destruct H as (_ & H & _). rewrite !csum_S. lra.
  Qed.

  (* cumulative use of crops never exceeds what has been harvested so far *)
  Lemma lpc01_crops : add_cr i = true ->
    forall m, (m < NM i)%nat -> csum (a CR_consumed) m <= csum (at_ (crops_prod i)) m.
  Proof.
    intros Hb m Hm. pose proof (crops_ledger Hb m Hm). pose proof (lpc01_nonneg CR_storage m). lra.
  Qed.

  Lemma lpc01_crops_use : add_cr i = true ->
    forall m, (m < NM i)%nat -> csum (cr_use i a) m <= csum (at_ (crops_prod i)) m.
  Proof.
    intros Hb m Hm. rewrite <- (csum_ext (a CR_consumed) (cr_use i a) m).
    - apply lpc01_crops; assumption.
    - intros k Hk. apply lpc01_crops_consumed; [assumption | lia].
  Qed.

  (* ---------------- meat ---------------- *)

  Lemma meat_ledger : add_meat i = true -> store_years i = true ->
    forall m, (m < NM i)%nat -> a M_end m == meat_total i - csum (meat_use i a) m.
  Proof.
    intros Hb R. induction m as [|p IH]; intros Hm.
    - pose proof (Feasible_meat i ty a F 0 Hb Hm) as H.
      apply (sat_rows_meat_store_O i a R) in H. destruct H as (H1 & H2 & _).
      rewrite csum_0. unfold meat_use. lra.
    - assert (Hp : (p < NM i)%nat) by lia. specialize (IH Hp).
      pose proof (Feasible_meat i ty a F (S p) Hb Hm) as H.
      apply (sat_rows_meat_store_S i a p R) in H. destruct H as (H1 & H2 & _).
      rewrite csum_S. unfold meat_use in *. lra.
  Qed.

  Lemma meat_cum_row : add_meat i = true -> store_years i = true ->
    forall m, (m < NM i)%nat -> meat_total i - a M_end m <= at_ (meat_running i) m.
  Proof.
    intros Hb R m Hm. pose proof (Feasible_meat i ty a F m Hb Hm) as H. destruct m as [|p].
    - apply (sat_rows_meat_store_O i a R) in H. tauto.
    - apply (sat_rows_meat_store_S i a p R) in H. tauto.
  Qed.

  (* storage regime: cumulative meat eaten stays within the running ceiling and the total *)
  Lemma lpc01_meat_store : add_meat i = true -> store_years i = true ->
    forall m, (m < NM i)%nat ->
    csum (meat_use i a) m <= at_ (meat_running i) m /\ csum (meat_use i a) m <= meat_total i.
  Proof.
    intros Hb R m Hm. pose proof (meat_ledger Hb R m Hm). pose proof (meat_cum_row Hb R m Hm).
    pose proof (lpc01_nonneg M_end m). split; lra.
  Qed.

  (* no-storage regime: monthly meat eaten within that month's slaughter *)
  Lemma lpc01_meat_nostore : add_meat i = true -> store_years i = false ->
    forall m, (m < NM i)%nat -> meat_use i a m <= at_ (meat_monthly i) m.
  Proof.
    intros Hb R m Hm. pose proof (Feasible_meat i ty a F m Hb Hm) as H.
    apply (sat_rows_meat_nostore i a m R) in H. exact H.
  Qed.

  (* "never exceeds what has been slaughtered so far": needs the running ceiling to be (at most)
     the running sum of monthly slaughter in the storage regime; nothing extra otherwise *)
  Lemma lpc01_meat_slaughtered : add_meat i = true ->
    (store_years i = true -> forall m, (m < NM i)%nat ->
       at_ (meat_running i) m <= csum (at_ (meat_monthly i)) m) ->
    forall m, (m < NM i)%nat -> csum (meat_use i a) m <= csum (at_ (meat_monthly i)) m.
  Proof.
    intros Hb Hrun m Hm. destruct (store_years i) eqn:R.
    - destruct (lpc01_meat_store Hb R m Hm) as [H _]. specialize (Hrun eq_refl m Hm). lra.
    - apply csum_le. intros k Hk. apply lpc01_meat_nostore; [assumption | exact R | lia].
  Qed.

  (* ---------------- single-cell protein, cellulosic sugar ---------------- *)

  Lemma lpc01_scp : add_scp i = true ->
    forall m, (m < NM i)%nat -> scp_use i a m <= at_ (scp_prod i) m.
  Proof. intros Hb m Hm. apply sat_rows_scp. apply (Feasible_scp i ty a F m Hb Hm). Qed.

  Lemma lpc01_cs : add_cs i = true ->
    forall m, (m < NM i)%nat -> cs_use i a m <= at_ (cs_prod i) m.
  Proof. intros Hb m Hm. apply sat_rows_cs. apply (Feasible_cs i ty a F m Hb Hm). Qed.

  (* ---------------- seaweed ---------------- *)

  Lemma lpc01_seaweed_bounds : add_sw i = true ->
    forall m, (m < NM i)%nat ->
    sw_init i <= a SW_wet m /\ a SW_wet m <= sw_max_density i * at_ (built_area i) m /\
    sw_init_area i <= a SW_area m /\ a SW_area m <= at_ (built_area i) m.
  Proof.
    intros Hb m Hm. apply (sat_rows_seaweed_bounds i a m). apply (Feasible_seaweed i ty a F m Hb Hm).
  Qed.

  Lemma lpc01_seaweed_month0 : add_sw i = true -> (0 < NM i)%nat ->
    a SW_wet 0%nat == sw_init i /\ a SW_area 0%nat == sw_init_area i /\
    a SW_h 0%nat == 0 /\ a SW_f 0%nat == 0 /\ a SW_b 0%nat == 0.
  Proof.
    intros Hb Hm. pose proof (Feasible_seaweed i ty a F 0 Hb Hm) as H.
    apply sat_rows_seaweed_O in H. tauto.
  Qed.

  Lemma lpc01_seaweed_ledger : add_sw i = true ->
    forall p, (S p < NM i)%nat ->
    a SW_wet (S p) ==
    a SW_wet p * (1 + at_ (growth i) (S p) / 100) - sw_use i a (S p)
    - (a SW_area (S p) - a SW_area p) * sw_min_density i * (sw_harvest_loss i / 100).
  Proof.
    intros Hb p Hm. pose proof (Feasible_seaweed i ty a F (S p) Hb Hm) as H.
    apply sat_rows_seaweed_S in H. destruct H as [_ H]. unfold sw_ledger in H. unfold sw_use. lra.
  Qed.
End Any.

(* ================================================================== *)
(* rounds that maximise people fed                                    *)
(* ================================================================== *)
Section Humans.
  Variables (i : lp_in) (a : assignment).
  Hypothesis F : Feasible i ToHumans a.
  Hypothesis N2 : (2 <= NM i)%nat.

  Lemma lpc01_humans_crops_none_left : add_cr i = true -> a CR_storage (NM i - 1)%nat == 0.
  Proof.
    intros Hb. destruct (NM i) as [|[|p]] eqn:E; try lia.
    replace (S (S p) - 1)%nat with (S p) by lia.
    assert (Hm : (S p < NM i)%nat) by lia.
    pose proof (Feasible_crops i ToHumans a F (S p) Hb Hm) as H.
    apply sat_rows_crops_S in H. destruct H as (_ & _ & H). apply H; [lia | reflexivity].
  Qed.

  Lemma lpc01_humans_crops_full_use : add_cr i = true ->
    csum (cr_use i a) (NM i - 1)%nat == csum (at_ (crops_prod i)) (NM i - 1)%nat.
  Proof.
    intros Hb. assert (Hm : (NM i - 1 < NM i)%nat) by lia.
    pose proof (crops_ledger i ToHumans a F Hb _ Hm) as H.
    rewrite (lpc01_humans_crops_none_left Hb) in H.
    rewrite <- (csum_ext (a CR_consumed) (cr_use i a)).
    - lra.
    - intros k Hk. apply (lpc01_crops_consumed i ToHumans a F Hb). lia.
  Qed.

  Lemma lpc01_humans_stored_none_left : add_sf i = true -> store_years i = true ->
    a SF_end (NM i - 1)%nat == 0.
  Proof.
    intros Hb R. destruct (NM i) as [|[|p]] eqn:E; try lia.
    replace (S (S p) - 1)%nat with (S p) by lia.
    assert (Hm : (S p < NM i)%nat) by lia.
    pose proof (Feasible_sf i ToHumans a F (S p) Hb Hm) as H.
    apply (sat_rows_sf_store_S i ToHumans a p R) in H. destruct H as (_ & _ & H).
    apply H; [lia | reflexivity].
  Qed.

  Lemma lpc01_humans_stored_full_use : add_sf i = true -> store_years i = true ->
    csum (sf_use i a) (NM i - 1)%nat == sf0 i.
  Proof.
    intros Hb R. assert (Hm : (NM i - 1 < NM i)%nat) by lia.
    pose proof (sf_ledger_store i ToHumans a F Hb R _ Hm) as H.
    rewrite (lpc01_humans_stored_none_left Hb R) in H. lra.
  Qed.
End Humans.

(* the charge equalities need no lower limit on the horizon *)
Lemma lpc01_humans_charges i a : Feasible i ToHumans a -> has_nonhuman i = true ->
  forall m, (m < NM i)%nat ->
  feed_sum i a m == at_ (feed_charge i) m /\ biofuel_sum i a m == at_ (biofuel_charge i) m.
Proof.
  intros F Hb m Hm. apply (sat_rows_feed_biofuel_humans i a m Hb).
  apply (Feasible_feed_biofuel i ToHumans a F m Hm).
Qed.

(* ================================================================== *)
(* the feed-maximising round                                          *)
(* ================================================================== *)
Section Animals.
  Variables (i : lp_in) (a : assignment).
  Hypothesis F : Feasible i ToAnimals a.
  Hypothesis Hb : has_nonhuman i = true.

  Lemma lpc01_animals_ceiling : forall m, (m < NM i)%nat ->
    feed_sum i a m <= at_ (max_feed i) m /\ biofuel_sum i a m <= at_ (max_biofuel i) m.
  Proof.
    intros m Hm. pose proof (Feasible_feed_biofuel i ToAnimals a F m Hm) as H. destruct m as [|p].
    - apply (sat_rows_feed_biofuel_animals_O i a Hb) in H. exact H.
    - apply (sat_rows_feed_biofuel_animals_S i a p Hb) in H. tauto.
  Qed.

  Lemma lpc01_animals_decrease : forall p, (S p < NM i)%nat ->
    feed_sum i a (S p) <= feed_sum i a p /\ biofuel_sum i a (S p) <= biofuel_sum i a p.
  Proof.
    intros p Hm. pose proof (Feasible_feed_biofuel i ToAnimals a F (S p) Hm) as H.
    apply (sat_rows_feed_biofuel_animals_S i a p Hb) in H. tauto.
  Qed.

  (* hence never rising over any span of months *)
  Lemma lpc01_animals_monotone : forall k m, (k <= m)%nat -> (m < NM i)%nat ->
    feed_sum i a m <= feed_sum i a k /\ biofuel_sum i a m <= biofuel_sum i a k.
  Proof.
    intros k m Hk. induction Hk as [|m Hk IH]; intros Hm.
    - split; lra.
    - destruct (lpc01_animals_decrease m Hm) as [H1 H2].
      destruct IH as [H3 H4]; [lia|]. split; lra.
  Qed.
End Animals.

(* without any feed/biofuel variable both sums are identically zero *)
Lemma lpc01_no_nonhuman i a m : has_nonhuman i = false -> feed_sum i a m == 0 /\ biofuel_sum i a m == 0.
Proof. intros H. split; [apply feed_sum_no_nonhuman | apply biofuel_sum_no_nonhuman]; exact H. Qed.

(* ================================================================== *)
(* non-vacuity: concrete feasible points, by computation              *)
(* ================================================================== *)

(* N = 3; stored food, crops and SCP on; storage regime; 20 % / 10 % retail waste *)
Definition ex_in : lp_in :=
  {| NM := 3;
     add_sw := false; add_cr := true; add_sf := true; add_meat := false; add_scp := true; add_cs := false;
     store_years := true;
     pop := 1000000; kcals_monthly_pp := 63000; need := 63;
     w_sf := 20; w_cr := 10; w_meat := 0; w_scp := 0; w_cs := 0; w_sw := 0;
     sf0 := 30; meat_total := 0;
     sw_kcals := 1; sw_init := 0; sw_init_area := 0; sw_min_density := 0; sw_max_density := 0; sw_harvest_loss := 0;
     relocated := false; harvest_delay := 0;
     cap_sw_h := 0; cap_sw_f := 0; cap_sw_b := 0;
     cap_scp_h := 100; cap_scp_f := 100; cap_scp_b := 100;
     cap_cs_h := 0; cap_cs_f := 0; cap_cs_b := 0;
     crops_prod := [18; 12; 20]; milk := [1; 1; 1]; greenhouse := []; fish := [2; 2; 2];
     scp_prod := [0; 5; 5]; cs_prod := []; built_area := []; growth := [];
     feed_charge := [4; 4; 4]; biofuel_charge := [1; 1; 1];
     meat_monthly := []; meat_running := [];
     max_feed := [4; 4; 4]; max_biofuel := [1; 1; 1];
     pin_cr := [9; 9; 18]; pin_sf := [8; 8; 4]; pin_meat := []; pin_scp := [0; 2; 2]; pin_cs := []; pin_sw := [] |}.

(* stored food: 8/8/4 to people (grossed 10/10/5) + 4 feed + 1 biofuel in month 2 -> stock 30 emptied;
   crops: 9/9/18 to people (grossed 10/10/20) + 4 feed + 1 biofuel in months 0,1 -> harvest 50 used up;
   SCP: 2 to people in months 1,2; milk + fish = 3 each month; need = 63 *)
Definition ex_tbl : list entry :=
  series SF_start [30; 20; 10] ++ series SF_end [20; 10; 0] ++
  series SF_h [8; 8; 4] ++ series SF_f [0; 0; 4] ++ series SF_b [0; 0; 1] ++
  series CR_h [9; 9; 18] ++ series CR_f [4; 4; 0] ++ series CR_b [1; 1; 0] ++
  series CR_consumed [15; 15; 20] ++ series CR_storage [3; 0; 0] ++
  series SCP_h [0; 2; 2] ++
  series Consumed [2000 # 63; 2200 # 63; 2700 # 63].

Definition ex_tbl_h : list entry := (Obj, O, 2000 # 63) :: ex_tbl.
Definition ex_tbl_a : list entry := (Obj, O, 9) :: ex_tbl.

Lemma ex_in_admissible : admissible ex_in.
Proof. unfold admissible, waste_ok; cbn. repeat split; lra. Qed.

Lemma ex_feasible_humans : Feasible ex_in ToHumans (a_of ex_tbl_h).
Proof. apply feasibleb_sound. vm_compute. reflexivity. Qed.

Lemma ex_feasible2_humans : Feasible2 ex_in ToHumans (2000 # 63) (a_of ex_tbl_h).
Proof. apply feasible2b_sound. vm_compute. reflexivity. Qed.

Lemma ex_feasible_animals : Feasible ex_in ToAnimals (a_of ex_tbl_a).
Proof. apply feasibleb_sound. vm_compute. reflexivity. Qed.

Lemma ex_feasible2_animals : Feasible2 ex_in ToAnimals 9 (a_of ex_tbl_a).
Proof. apply feasible2b_sound. vm_compute. reflexivity. Qed.

(* the example is not degenerate: people-fed objective is positive and the stock is really used *)
Lemma ex_nontrivial : 0 < a_of ex_tbl_h Obj 0%nat /\ csum (sf_use ex_in (a_of ex_tbl_h)) 2 == sf0 ex_in.
Proof. split; vm_compute; reflexivity. Qed.

(* first-year-only regime: the stock need not be emptied.  N = 2, only stored food (10 units),
   nothing is ever taken from it, and the point is feasible for the people-fed round. *)
Definition ex_unused_in : lp_in :=
  {| NM := 2;
     add_sw := false; add_cr := false; add_sf := true; add_meat := false; add_scp := false; add_cs := false;
     store_years := false;
     pop := 1000000; kcals_monthly_pp := 63000; need := 63;
     w_sf := 0; w_cr := 0; w_meat := 0; w_scp := 0; w_cs := 0; w_sw := 0;
     sf0 := 10; meat_total := 0;
     sw_kcals := 1; sw_init := 0; sw_init_area := 0; sw_min_density := 0; sw_max_density := 0; sw_harvest_loss := 0;
     relocated := false; harvest_delay := 0;
     cap_sw_h := 0; cap_sw_f := 0; cap_sw_b := 0;
     cap_scp_h := 0; cap_scp_f := 0; cap_scp_b := 0;
     cap_cs_h := 0; cap_cs_f := 0; cap_cs_b := 0;
     crops_prod := []; milk := []; greenhouse := []; fish := [];
     scp_prod := []; cs_prod := []; built_area := []; growth := [];
     feed_charge := []; biofuel_charge := [];
     meat_monthly := []; meat_running := [];
     max_feed := []; max_biofuel := [];
     pin_cr := []; pin_sf := []; pin_meat := []; pin_scp := []; pin_cs := []; pin_sw := [] |}.

Definition ex_unused_tbl : list entry := series SF_start [10; 10] ++ series SF_end [10; 10].

Lemma lpc01_first_year_regime_stock_left_unused :
  exists i a, admissible i /\ add_sf i = true /\ store_years i = false /\ (2 <= NM i)%nat /\
              Feasible i ToHumans a /\ csum (sf_use i a) (NM i - 1)%nat < sf0 i.
Proof.
  exists ex_unused_in, (a_of ex_unused_tbl).
  split; [unfold admissible, waste_ok; cbn; repeat split; lra|].
  split; [reflexivity|]. split; [reflexivity|]. split; [cbn; lia|].
  split; [apply feasibleb_sound; vm_compute; reflexivity|].
  vm_compute. reflexivity.
Qed.

(* ================================================================== *)
(* tolerance-relaxed version (solver feasibility tolerance) for the stored-food ledger *)
(* ================================================================== *)

Definition sat_eps (eps : Q) (a : assignment) (r : row) : Prop :=
  match sns r with
  | Le => eval a (lhs r) <= rhs r + eps
  | Ge => rhs r - eps <= eval a (lhs r)
  | Eq => rhs r - eps <= eval a (lhs r) /\ eval a (lhs r) <= rhs r + eps
  end.

Definition Feasible_eps (eps : Q) (i : lp_in) (ty : opt_type) (a : assignment) : Prop :=
  (forall s m, - eps <= a s m) /\ Forall (sat_eps eps a) (build i ty).

Lemma sat_eps_0 a r : sat_eps 0 a r <-> sat a r.
Proof. unfold sat_eps, sat. destruct (sns r); split; intros; try split; lra. Qed.

Lemma Feasible_eps_0 i ty a : Feasible_eps 0 i ty a <-> Feasible i ty a.
Proof.
  unfold Feasible_eps, Feasible, nonneg. rewrite !Forall_forall. split; intros [H1 H2]; split.
  - intros s m. specialize (H1 s m). lra.
  - intros r Hr. apply sat_eps_0. apply H2; exact Hr.
  - intros s m. specialize (H1 s m). lra.
  - intros r Hr. apply sat_eps_0. apply H2; exact Hr.
Qed.

Lemma sat_eps_weaken e1 e2 a r : e1 <= e2 -> sat_eps e1 a r -> sat_eps e2 a r.
Proof. unfold sat_eps. destruct (sns r); intros; try split; lra. Qed.

Lemma in_build_sf i ty m r : add_sf i = true -> (m < NM i)%nat ->
  In r (rows_sf i ty m) -> In r (build i ty).
Proof.
  intros Hb Hm Hr.
  assert (X : In r (flat_map (fun m => rows_sf i ty m ++ rows_pin i ty 1 SF_h (pin_sf i) m) (months i))).
  { apply in_flat_map. exists m. split; [apply in_seq; lia | apply in_app_iff; left; exact Hr]. }
  unfold build, resource_rows. rewrite Hb. rewrite !in_app_iff. tauto.
Qed.

Definition nq (m : nat) : Q := inject_Z (Z.of_nat m).

Lemma nq_S m : nq (S m) == nq m + 1.
Proof. unfold nq. rewrite Nat2Z.inj_succ. unfold Z.succ. rewrite inject_Z_plus. reflexivity. Qed.

Lemma nq_nonneg m : 0 <= nq m.
Proof. unfold nq. change 0 with (inject_Z 0). rewrite <- Zle_Qle. lia. Qed.

Section Robust.
  Variables (eps : Q) (i : lp_in) (ty : opt_type) (a : assignment).
  Hypothesis F : Feasible_eps eps i ty a.
  Hypothesis Hb : add_sf i = true.
  Hypothesis R : store_years i = true.

  Lemma sf_rows_eps m : (m < NM i)%nat -> Forall (sat_eps eps a) (rows_sf i ty m).
  Proof.
    intros Hm. destruct F as [_ H]. rewrite Forall_forall in *. intros r Hr.
    apply H. apply (in_build_sf i ty m r Hb Hm Hr).
  Qed.

  Lemma sf_eps_O : (0 < NM i)%nat ->
    a SF_start 0%nat <= sf0 i + eps /\ a SF_end 0%nat <= a SF_start 0%nat - sf_use i a 0 + eps.
  Proof.
    intros Hm. pose proof (sf_rows_eps 0 Hm) as H. unfold rows_sf in H. rewrite R in H.
    cbn [app] in H. rewrite !Forall_cons_iff in H. destruct H as (H1 & H2 & _).
    unfold sf_eaten_row, sat_eps in H1, H2. cbn [sns lhs rhs mk eval t] in H1, H2.
    unfold sf_use. split; lra.
  Qed.

  Lemma sf_eps_S p : (S p < NM i)%nat ->
    a SF_start (S p) <= a SF_end p + eps /\ a SF_end (S p) <= a SF_start (S p) - sf_use i a (S p) + eps.
  Proof.
    intros Hm. pose proof (sf_rows_eps (S p) Hm) as H. unfold rows_sf in H. rewrite R in H.
    rewrite !Forall_app in H. destruct H as ((_ & H1) & H2).
    rewrite !Forall_cons_iff in H1, H2. destruct H1 as (H1 & _). destruct H2 as (H2 & _).
    unfold sf_eaten_row, sat_eps in H1, H2. cbn [sns lhs rhs mk eval t] in H1, H2.
    unfold sf_use. split; lra.
  Qed.

  Lemma sf_ledger_eps m : (m < NM i)%nat ->
    a SF_end m <= sf0 i - csum (sf_use i a) m + (2 * nq m + 2) * eps.
  Proof.
    induction m as [|p IH]; intros Hm.
    - destruct (sf_eps_O Hm) as [H1 H2]. rewrite csum_0. change (nq 0) with 0. lra.
    - assert (Hp : (p < NM i)%nat) by lia. specialize (IH Hp).
      destruct (sf_eps_S p Hm) as [H1 H2]. rewrite csum_S, nq_S. lra.
  Qed.

  (* every row within eps  ==>  cumulative use within sf0 + (2m+3) eps *)
  Lemma lpc01_robust_stored m : (m < NM i)%nat ->
    csum (sf_use i a) m <= sf0 i + (2 * nq m + 3) * eps.
  Proof.
    intros Hm. pose proof (sf_ledger_eps m Hm) as H. destruct F as [Hn _].
    specialize (Hn SF_end m). lra.
  Qed.
End Robust.
