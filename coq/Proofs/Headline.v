(* C02 + C04 composed: what the run REPORTS as percent fed (the interpreter's headline of a people-fed round) against the
   optimum of the physical allocation problem of Model/Physical.v.  Builds on Proofs/LP_C02.v and Proofs/Report.v. *)
From Coq Require Import QArith Lqa List Bool Arith.
From Coq Require Import String.
From Allfed Require Import Base.StrUtil Gen.UnitTables Model.Units Model.LP Model.Physical Model.Report Proofs.Units Proofs.LPChar Proofs.LP_C02 Proofs.Report.
Import ListNotations.
Open Scope Q_scope.

(* If no physical allocation feeds more than v in its worst month, and the two-stage solve returns an assignment
   that keeps every month at the floor of v, then the reported headline is at most v and within 0.005 % of it. *)
Lemma headline_near_physical_optimum i c a v e ii :
  admissible i -> lp_settings_ok i c -> 0 <= v ->
  (forall x w, Physical i ToHumans x -> achieves i ToHumans x w -> w <= v) ->
  Feasible2 i ToHumans v a -> report (report_in i c a) = Ok (e, ii) ->
  headline ii <= v /\ v - headline ii <= (5 # 100000) * v.
Proof.
  intros A S V U F R.
  assert (O : first_optimum i v).
  { unfold first_optimum. apply (proj2 (c02_upper_bound_transfer i ToHumans v A V)). exact U. }
  split.
  - exact (headline_le_optimum i c a v e ii S (proj1 F) R O).
  - destruct (report_floor i c a v e ii S F R) as [L _].
    pose proof (headline_le_optimum i c a v e ii S (proj1 F) R O) as H.
    destruct (within_tolerance v (headline ii) L H) as (_ & T & _). exact T.
Qed.

(* ... and the headline itself is achieved by a physical allocation: the reported number is never above what the
   food that exists can deliver *)
Lemma headline_is_physically_achievable i c a v e ii :
  admissible i -> lp_settings_ok i c -> 0 <= v ->
  (forall x w, Physical i ToHumans x -> achieves i ToHumans x w -> w <= v) ->
  Feasible2 i ToHumans v a -> report (report_in i c a) = Ok (e, ii) ->
  Physical i ToHumans (proj a) /\ (forall w, achieves i ToHumans (proj a) w -> w <= v).
Proof.
  intros A S V U F R.
  assert (N : 0 < need i) by (destruct A as (_ & _ & _ & _ & _ & _ & N & _); exact N).
  destruct (c02_sound i ToHumans a N (proj1 F)) as [P _].
  split; [exact P|]. intros w W. exact (U (proj a) w P W).
Qed.
