(* Characterisation interface of Model/LP.v:
   (a) structure of `Feasible` (one conjunct per row family and month), both directions;
   (b) per-family unfold lemmas: `Forall (sat a) (rows_X ...) <-> plain arithmetic`.
   Statements in this file are an interface for the other proof files: only add, never change. *)
From Coq Require Import QArith List Bool Arith Lia Lqa.
From Allfed Require Import Model.LP.
Import ListNotations.
Open Scope Q_scope.

(* ================================================================== *)
(* generic list lemmas                                                *)
(* ================================================================== *)

Lemma Forall_flat_map_seq {A : Type} (P : A -> Prop) (f : nat -> list A) (s n : nat) :
  Forall P (flat_map f (seq s n)) <-> (forall m, (s <= m < s + n)%nat -> Forall P (f m)).
Proof.
  rewrite Forall_flat_map, Forall_forall. split.
  - intros H m Hm. apply H. apply in_seq. lia.
  - intros H m Hm. apply H. apply in_seq in Hm. lia.
Qed.

Lemma Forall_flat_map_seq0 {A : Type} (P : A -> Prop) (f : nat -> list A) (n : nat) :
  Forall P (flat_map f (seq 0 n)) <-> (forall m, (m < n)%nat -> Forall P (f m)).
Proof.
  rewrite Forall_flat_map_seq. split; intros H m Hm; apply H; lia.
Qed.

Lemma Forall_map_seq0 {A : Type} (P : A -> Prop) (f : nat -> A) (n : nat) :
  Forall P (map f (seq 0 n)) <-> (forall m, (m < n)%nat -> P (f m)).
Proof.
  rewrite Forall_map, Forall_forall. split.
  - intros H m Hm. apply H. apply in_seq. lia.
  - intros H m Hm. apply H. apply in_seq in Hm. lia.
Qed.

(* one resource block of `resource_rows` *)
Lemma Forall_resource_block {A : Type} (P : A -> Prop) (b : bool) (f g : nat -> list A) (n : nat) :
  Forall P (if b then flat_map (fun m => f m ++ g m) (seq 0 n) else []) <->
  (b = true -> forall m, (m < n)%nat -> Forall P (f m) /\ Forall P (g m)).
Proof.
  destruct b.
  - rewrite Forall_flat_map_seq0. split.
    + intros H _ m Hm. apply Forall_app. apply H; exact Hm.
    + intros H m Hm. apply Forall_app. apply H; [reflexivity | exact Hm].
  - split; [intros _ H; discriminate H | intros _; constructor].
Qed.

Lemma Forall_if_true {A : Type} (P : A -> Prop) (b : bool) (l : list A) :
  Forall P (if b then l else []) <-> (b = true -> Forall P l).
Proof.
  destruct b; split; intros H; auto; try constructor. intros H0; discriminate H0.
Qed.

(* ================================================================== *)
(* finite sums over months                                            *)
(* ================================================================== *)

(* sumQ f n = f 0 + ... + f (n-1) *)
Fixpoint sumQ (f : nat -> Q) (n : nat) : Q :=
  match n with
  | O => 0
  | S k => sumQ f k + f k
  end.

(* cumulative sum up to and including month m *)
Definition csum (f : nat -> Q) (m : nat) : Q := sumQ f (S m).

Lemma sumQ_0 f : sumQ f 0 = 0.
Proof. reflexivity. Qed.

Lemma sumQ_S f n : sumQ f (S n) = sumQ f n + f n.
Proof. reflexivity. Qed.

Lemma csum_0 f : csum f 0 == f O.
Proof. unfold csum; cbn [sumQ]; ring. Qed.

Lemma csum_S f m : csum f (S m) == csum f m + f (S m).
Proof. unfold csum; cbn [sumQ]; ring. Qed.

Lemma sumQ_ext f g n : (forall m, (m < n)%nat -> f m == g m) -> sumQ f n == sumQ g n.
Proof.
  induction n as [|n IH]; intros H; cbn [sumQ]; [reflexivity|].
  rewrite IH, (H n) by (intros; try apply H; lia). reflexivity.
Qed.

Lemma sumQ_le f g n : (forall m, (m < n)%nat -> f m <= g m) -> sumQ f n <= sumQ g n.
Proof.
  induction n as [|n IH]; intros H; cbn [sumQ]; [lra|].
  assert (sumQ f n <= sumQ g n) by (apply IH; intros; apply H; lia).
  assert (f n <= g n) by (apply H; lia). lra.
Qed.

Lemma sumQ_nonneg f n : (forall m, (m < n)%nat -> 0 <= f m) -> 0 <= sumQ f n.
Proof.
  induction n as [|n IH]; intros H; cbn [sumQ]; [lra|].
  assert (0 <= sumQ f n) by (apply IH; intros; apply H; lia).
  assert (0 <= f n) by (apply H; lia). lra.
Qed.

Lemma sumQ_zero n : sumQ (fun _ => 0) n == 0.
Proof. induction n as [|n IH]; cbn [sumQ]; [reflexivity | rewrite IH; ring]. Qed.

Lemma sumQ_all_zero f n : (forall m, (m < n)%nat -> f m == 0) -> sumQ f n == 0.
Proof. intros H. rewrite (sumQ_ext f (fun _ => 0) n H). apply sumQ_zero. Qed.

Lemma sumQ_plus f g n : sumQ (fun m => f m + g m) n == sumQ f n + sumQ g n.
Proof. induction n as [|n IH]; cbn [sumQ]; [ring | rewrite IH; ring]. Qed.

Lemma sumQ_minus f g n : sumQ (fun m => f m - g m) n == sumQ f n - sumQ g n.
Proof. induction n as [|n IH]; cbn [sumQ]; [ring | rewrite IH; ring]. Qed.

Lemma sumQ_scale c f n : sumQ (fun m => c * f m) n == c * sumQ f n.
Proof. induction n as [|n IH]; cbn [sumQ]; [ring | rewrite IH; ring]. Qed.

Lemma sumQ_const c n : sumQ (fun _ => c) n == inject_Z (Z.of_nat n) * c.
Proof.
  induction n as [|n IH]; cbn [sumQ]; [ring|].
  rewrite IH, Nat2Z.inj_succ. unfold Z.succ. rewrite inject_Z_plus. ring.
Qed.

Lemma sumQ_mono_n f n k : (forall m, (n <= m < k)%nat -> 0 <= f m) -> (n <= k)%nat -> sumQ f n <= sumQ f k.
Proof.
  intros H Hk. induction k as [|k IH].
  - assert (n = O) by lia. subst. lra.
  - destruct (Nat.eq_dec n (S k)) as [->|Hne]; [lra|].
    cbn [sumQ]. assert (sumQ f n <= sumQ f k) by (apply IH; [intros; apply H; lia | lia]).
    assert (0 <= f k) by (apply H; lia). lra.
Qed.

Lemma csum_ext f g m : (forall k, (k <= m)%nat -> f k == g k) -> csum f m == csum g m.
Proof. intros H. apply sumQ_ext. intros; apply H; lia. Qed.

Lemma csum_le f g m : (forall k, (k <= m)%nat -> f k <= g k) -> csum f m <= csum g m.
Proof. intros H. apply sumQ_le. intros; apply H; lia. Qed.

Lemma csum_nonneg f m : (forall k, (k <= m)%nat -> 0 <= f k) -> 0 <= csum f m.
Proof. intros H. apply sumQ_nonneg. intros; apply H; lia. Qed.

Lemma csum_mono f m k : (forall j, 0 <= f j) -> (m <= k)%nat -> csum f m <= csum f k.
Proof. intros H Hk. apply sumQ_mono_n; [intros; apply H | lia]. Qed.

(* ================================================================== *)
(* evaluation of linear expressions                                   *)
(* ================================================================== *)

Lemma eval_nil a : eval a [] = 0.
Proof. reflexivity. Qed.

Lemma eval_cons a c s m l : eval a ((c, (s, m)) :: l) = c * a s m + eval a l.
Proof. reflexivity. Qed.

Lemma eval_app a l1 l2 : eval a (l1 ++ l2) == eval a l1 + eval a l2.
Proof.
  induction l1 as [|[c [s m]] l1 IH]; cbn [app eval]; [ring | rewrite IH; ring].
Qed.

Lemma eval_flat_map_seq0 a (g : nat -> list (Q * var)) n :
  eval a (flat_map g (seq 0 n)) == sumQ (fun m => eval a (g m)) n.
Proof.
  induction n as [|n IH]; [reflexivity|].
  rewrite seq_S, flat_map_app, eval_app, IH. cbn [flat_map sumQ plus].
  rewrite app_nil_r. reflexivity.
Qed.

(* the gross-up factor 1/(1 - w/100) of an admissible waste percentage *)
Lemma Qdiv100 w : w / 100 == w * (1 # 100).
Proof. unfold Qdiv. reflexivity. Qed.
Lemma waste_den_pos w : waste_ok w -> 0 < 1 - w / 100.
Proof. intros [H0 H1]. rewrite Qdiv100. lra. Qed.
Lemma gross_pos w : waste_ok w -> 0 < gross w.
Proof.
  intros H. unfold gross. pose proof (waste_den_pos w H) as Hd.
  unfold Qdiv. rewrite Qmult_1_l. apply Qinv_lt_0_compat. exact Hd.
Qed.

Lemma gross_ge_1 w : waste_ok w -> 1 <= gross w.
Proof.
  intros H. unfold gross. pose proof (waste_den_pos w H) as Hd.
  apply Qle_shift_div_l; [exact Hd |]. destruct H as [H0 H1]. rewrite Qdiv100. lra.
Qed.

Lemma gross_spec w : waste_ok w -> gross w * (1 - w / 100) == 1.
Proof.
  intros H. pose proof (waste_den_pos w H) as Hd. unfold gross. field. intro HE. rewrite Qdiv100 in Hd. lra.
Qed.

(* ================================================================== *)
(* sums over the added foods                                          *)
(* ================================================================== *)

Definition bq (b : bool) (x : Q) : Q := if b then x else 0.

Lemma bq_nonneg b x : 0 <= x -> 0 <= bq b x.
Proof. destruct b; cbn [bq]; lra. Qed.

Lemma bq_true x : bq true x = x.
Proof. reflexivity. Qed.

Lemma bq_false x : bq false x = 0.
Proof. reflexivity. Qed.

Definition feed_sum (i : lp_in) (a : assignment) (m : nat) : Q :=
  bq (add_sf i) (a SF_f m) + bq (add_cr i) (a CR_f m) + bq (add_sw i) (sw_kcals i * a SW_f m) +
  bq (add_cs i) (a CS_f m) + bq (add_scp i) (a SCP_f m).

Definition biofuel_sum (i : lp_in) (a : assignment) (m : nat) : Q :=
  bq (add_sf i) (a SF_b m) + bq (add_cr i) (a CR_b m) + bq (add_sw i) (sw_kcals i * a SW_b m) +
  bq (add_cs i) (a CS_b m) + bq (add_scp i) (a SCP_b m).

Definition human_sum (i : lp_in) (a : assignment) (m : nat) : Q :=
  bq (add_sf i) (a SF_h m) + bq (add_cr i) (a CR_h m) + bq (add_sw i) (sw_kcals i * a SW_h m) +
  bq (add_meat i) (a M_eaten m) + bq (add_cs i) (a CS_h m) + bq (add_scp i) (a SCP_h m).

Lemma eval_feed_terms i a c m : eval a (feed_terms i c m) == c * feed_sum i a m.
Proof.
  unfold feed_terms, feed_sum, opt, bq.
  destruct (add_sf i), (add_cr i), (add_sw i), (add_cs i), (add_scp i);
    cbn [app eval t]; ring.
Qed.

Lemma eval_biofuel_terms i a c m : eval a (biofuel_terms i c m) == c * biofuel_sum i a m.
Proof.
  unfold biofuel_terms, biofuel_sum, opt, bq.
  destruct (add_sf i), (add_cr i), (add_sw i), (add_cs i), (add_scp i);
    cbn [app eval t]; ring.
Qed.

Lemma eval_human_terms i a c m : eval a (human_terms i c m) == c * human_sum i a m.
Proof.
  unfold human_terms, human_sum, opt, bq.
  destruct (add_sf i), (add_cr i), (add_sw i), (add_meat i), (add_cs i), (add_scp i);
    cbn [app eval t]; ring.
Qed.

Lemma feed_sum_no_nonhuman i a m : has_nonhuman i = false -> feed_sum i a m == 0.
Proof.
  unfold has_nonhuman, feed_sum, bq.
  destruct (add_sf i), (add_cr i), (add_sw i), (add_cs i), (add_scp i); cbn; intros H; try discriminate H; ring.
Qed.

Lemma biofuel_sum_no_nonhuman i a m : has_nonhuman i = false -> biofuel_sum i a m == 0.
Proof.
  unfold has_nonhuman, biofuel_sum, bq.
  destruct (add_sf i), (add_cr i), (add_sw i), (add_cs i), (add_scp i); cbn; intros H; try discriminate H; ring.
Qed.

Lemma feed_sum_nonneg i a m : nonneg a -> 0 <= sw_kcals i -> 0 <= feed_sum i a m.
Proof.
  intros Ha Hk. unfold feed_sum.
  assert (0 <= sw_kcals i * a SW_f m) by (apply Qmult_le_0_compat; [exact Hk | apply Ha]).
  pose proof (bq_nonneg (add_sf i) _ (Ha SF_f m)). pose proof (bq_nonneg (add_cr i) _ (Ha CR_f m)).
  pose proof (bq_nonneg (add_sw i) _ H). pose proof (bq_nonneg (add_cs i) _ (Ha CS_f m)).
  pose proof (bq_nonneg (add_scp i) _ (Ha SCP_f m)). lra.
Qed.

Lemma biofuel_sum_nonneg i a m : nonneg a -> 0 <= sw_kcals i -> 0 <= biofuel_sum i a m.
Proof.
  intros Ha Hk. unfold biofuel_sum.
  assert (0 <= sw_kcals i * a SW_b m) by (apply Qmult_le_0_compat; [exact Hk | apply Ha]).
  pose proof (bq_nonneg (add_sf i) _ (Ha SF_b m)). pose proof (bq_nonneg (add_cr i) _ (Ha CR_b m)).
  pose proof (bq_nonneg (add_sw i) _ H). pose proof (bq_nonneg (add_cs i) _ (Ha CS_b m)).
  pose proof (bq_nonneg (add_scp i) _ (Ha SCP_b m)). lra.
Qed.

Lemma human_sum_nonneg i a m : nonneg a -> 0 <= sw_kcals i -> 0 <= human_sum i a m.
Proof.
  intros Ha Hk. unfold human_sum.
  assert (0 <= sw_kcals i * a SW_h m) by (apply Qmult_le_0_compat; [exact Hk | apply Ha]).
  pose proof (bq_nonneg (add_sf i) _ (Ha SF_h m)). pose proof (bq_nonneg (add_cr i) _ (Ha CR_h m)).
  pose proof (bq_nonneg (add_sw i) _ H). pose proof (bq_nonneg (add_meat i) _ (Ha M_eaten m)).
  pose proof (bq_nonneg (add_cs i) _ (Ha CS_h m)). pose proof (bq_nonneg (add_scp i) _ (Ha SCP_h m)). lra.
Qed.

(* ================================================================== *)
(* (a) structure of Feasible                                          *)
(* ================================================================== *)

Theorem resource_rows_char i ty a :
  Forall (sat a) (resource_rows i ty) <->
  (add_sw i = true -> forall m, (m < NM i)%nat ->
     Forall (sat a) (rows_seaweed i m) /\ Forall (sat a) (rows_pin i ty (sw_kcals i) SW_h (pin_sw i) m)) /\
  (add_cr i = true -> forall m, (m < NM i)%nat ->
     Forall (sat a) (rows_crops i ty m) /\ Forall (sat a) (rows_pin i ty 1 CR_h (pin_cr i) m)) /\
  (add_sf i = true -> forall m, (m < NM i)%nat ->
     Forall (sat a) (rows_sf i ty m) /\ Forall (sat a) (rows_pin i ty 1 SF_h (pin_sf i) m)) /\
  (add_meat i = true -> forall m, (m < NM i)%nat ->
     Forall (sat a) (rows_meat i m) /\ Forall (sat a) (rows_pin i ty 1 M_eaten (pin_meat i) m)) /\
  (add_scp i = true -> forall m, (m < NM i)%nat ->
     Forall (sat a) (rows_scp i m) /\ Forall (sat a) (rows_pin i ty 1 SCP_h (pin_scp i) m)) /\
  (add_cs i = true -> forall m, (m < NM i)%nat ->
     Forall (sat a) (rows_cs i m) /\ Forall (sat a) (rows_pin i ty 1 CS_h (pin_cs i) m)).
Proof.
  unfold resource_rows, months.
  rewrite !Forall_app.
  rewrite (Forall_resource_block (sat a) (add_sw i) (rows_seaweed i) (fun m => rows_pin i ty (sw_kcals i) SW_h (pin_sw i) m)).
  rewrite (Forall_resource_block (sat a) (add_cr i) (rows_crops i ty) (fun m => rows_pin i ty 1 CR_h (pin_cr i) m)).
  rewrite (Forall_resource_block (sat a) (add_sf i) (rows_sf i ty) (fun m => rows_pin i ty 1 SF_h (pin_sf i) m)).
  rewrite (Forall_resource_block (sat a) (add_meat i) (rows_meat i) (fun m => rows_pin i ty 1 M_eaten (pin_meat i) m)).
  rewrite (Forall_resource_block (sat a) (add_scp i) (rows_scp i) (fun m => rows_pin i ty 1 SCP_h (pin_scp i) m)).
  rewrite (Forall_resource_block (sat a) (add_cs i) (rows_cs i) (fun m => rows_pin i ty 1 CS_h (pin_cs i) m)).
  tauto.
Qed.

Theorem month_rows_char i ty a :
  Forall (sat a) (flat_map (fun m => rows_feed_biofuel i ty m ++ rows_consumed i ty m ++ rows_caps i ty m) (months i)) <->
  (forall m, (m < NM i)%nat ->
     Forall (sat a) (rows_feed_biofuel i ty m) /\ Forall (sat a) (rows_consumed i ty m) /\
     Forall (sat a) (rows_caps i ty m)).
Proof.
  unfold months. rewrite Forall_flat_map_seq0. split; intros H m Hm.
  - specialize (H m Hm). rewrite !Forall_app in H. exact H.
  - rewrite !Forall_app. apply H; exact Hm.
Qed.

Theorem Feasible_char i ty a :
  Feasible i ty a <->
  nonneg a /\
  (add_sw i = true -> forall m, (m < NM i)%nat ->
     Forall (sat a) (rows_seaweed i m) /\ Forall (sat a) (rows_pin i ty (sw_kcals i) SW_h (pin_sw i) m)) /\
  (add_cr i = true -> forall m, (m < NM i)%nat ->
     Forall (sat a) (rows_crops i ty m) /\ Forall (sat a) (rows_pin i ty 1 CR_h (pin_cr i) m)) /\
  (add_sf i = true -> forall m, (m < NM i)%nat ->
     Forall (sat a) (rows_sf i ty m) /\ Forall (sat a) (rows_pin i ty 1 SF_h (pin_sf i) m)) /\
  (add_meat i = true -> forall m, (m < NM i)%nat ->
     Forall (sat a) (rows_meat i m) /\ Forall (sat a) (rows_pin i ty 1 M_eaten (pin_meat i) m)) /\
  (add_scp i = true -> forall m, (m < NM i)%nat ->
     Forall (sat a) (rows_scp i m) /\ Forall (sat a) (rows_pin i ty 1 SCP_h (pin_scp i) m)) /\
  (add_cs i = true -> forall m, (m < NM i)%nat ->
     Forall (sat a) (rows_cs i m) /\ Forall (sat a) (rows_pin i ty 1 CS_h (pin_cs i) m)) /\
  (forall m, (m < NM i)%nat ->
     Forall (sat a) (rows_feed_biofuel i ty m) /\ Forall (sat a) (rows_consumed i ty m) /\
     Forall (sat a) (rows_caps i ty m)) /\
  Forall (sat a) (rows_objective i ty).
Proof.
  unfold Feasible, build. rewrite !Forall_app, resource_rows_char, month_rows_char. tauto.
Qed.

(* projections of Feasible (forward direction, one per family) *)
Section Projections.
  Variables (i : lp_in) (ty : opt_type) (a : assignment).
  Hypothesis F : Feasible i ty a.

  Lemma Feasible_nonneg : nonneg a.
  Proof. apply Feasible_char in F. tauto. Qed.

  Lemma Feasible_seaweed m : add_sw i = true -> (m < NM i)%nat -> Forall (sat a) (rows_seaweed i m).
  Proof. intros Hb Hm. apply Feasible_char in F. destruct F as (_ & H & _). apply (H Hb m Hm). Qed.

  Lemma Feasible_pin_sw m : add_sw i = true -> (m < NM i)%nat ->
    Forall (sat a) (rows_pin i ty (sw_kcals i) SW_h (pin_sw i) m).
  Proof. intros Hb Hm. apply Feasible_char in F. destruct F as (_ & H & _). apply (H Hb m Hm). Qed.

  Lemma Feasible_crops m : add_cr i = true -> (m < NM i)%nat -> Forall (sat a) (rows_crops i ty m).
  Proof. intros Hb Hm. apply Feasible_char in F. destruct F as (_ & _ & H & _). apply (H Hb m Hm). Qed.

  Lemma Feasible_pin_cr m : add_cr i = true -> (m < NM i)%nat ->
    Forall (sat a) (rows_pin i ty 1 CR_h (pin_cr i) m).
  Proof. intros Hb Hm. apply Feasible_char in F. destruct F as (_ & _ & H & _). apply (H Hb m Hm). Qed.

  Lemma Feasible_sf m : add_sf i = true -> (m < NM i)%nat -> Forall (sat a) (rows_sf i ty m).
  Proof. intros Hb Hm. apply Feasible_char in F. destruct F as (_ & _ & _ & H & _). apply (H Hb m Hm). Qed.

  Lemma Feasible_pin_sf m : add_sf i = true -> (m < NM i)%nat ->
    Forall (sat a) (rows_pin i ty 1 SF_h (pin_sf i) m).
  Proof. intros Hb Hm. apply Feasible_char in F. destruct F as (_ & _ & _ & H & _). apply (H Hb m Hm). Qed.

  Lemma Feasible_meat m : add_meat i = true -> (m < NM i)%nat -> Forall (sat a) (rows_meat i m).
  Proof. intros Hb Hm. apply Feasible_char in F. destruct F as (_ & _ & _ & _ & H & _). apply (H Hb m Hm). Qed.

  Lemma Feasible_pin_meat m : add_meat i = true -> (m < NM i)%nat ->
    Forall (sat a) (rows_pin i ty 1 M_eaten (pin_meat i) m).
  Proof. intros Hb Hm. apply Feasible_char in F. destruct F as (_ & _ & _ & _ & H & _). apply (H Hb m Hm). Qed.

  Lemma Feasible_scp m : add_scp i = true -> (m < NM i)%nat -> Forall (sat a) (rows_scp i m).
  Proof. intros Hb Hm. apply Feasible_char in F. destruct F as (_ & _ & _ & _ & _ & H & _). apply (H Hb m Hm). Qed.

  Lemma Feasible_pin_scp m : add_scp i = true -> (m < NM i)%nat ->
    Forall (sat a) (rows_pin i ty 1 SCP_h (pin_scp i) m).
  Proof. intros Hb Hm. apply Feasible_char in F. destruct F as (_ & _ & _ & _ & _ & H & _). apply (H Hb m Hm). Qed.

  Lemma Feasible_cs m : add_cs i = true -> (m < NM i)%nat -> Forall (sat a) (rows_cs i m).
  Proof. intros Hb Hm. apply Feasible_char in F. destruct F as (_ & _ & _ & _ & _ & _ & H & _). apply (H Hb m Hm). Qed.

  Lemma Feasible_pin_cs m : add_cs i = true -> (m < NM i)%nat ->
    Forall (sat a) (rows_pin i ty 1 CS_h (pin_cs i) m).
  Proof. intros Hb Hm. apply Feasible_char in F. destruct F as (_ & _ & _ & _ & _ & _ & H & _). apply (H Hb m Hm). Qed.

  Lemma Feasible_feed_biofuel m : (m < NM i)%nat -> Forall (sat a) (rows_feed_biofuel i ty m).
  Proof. intros Hm. apply Feasible_char in F. destruct F as (_ & _ & _ & _ & _ & _ & _ & H & _). apply (H m Hm). Qed.

  Lemma Feasible_consumed m : (m < NM i)%nat -> Forall (sat a) (rows_consumed i ty m).
  Proof. intros Hm. apply Feasible_char in F. destruct F as (_ & _ & _ & _ & _ & _ & _ & H & _). apply (H m Hm). Qed.

  Lemma Feasible_caps m : (m < NM i)%nat -> Forall (sat a) (rows_caps i ty m).
  Proof. intros Hm. apply Feasible_char in F. destruct F as (_ & _ & _ & _ & _ & _ & _ & H & _). apply (H m Hm). Qed.

  Lemma Feasible_objective : Forall (sat a) (rows_objective i ty).
  Proof. apply Feasible_char in F. tauto. Qed.
End Projections.

Lemma Feasible2_Feasible i ty v a : Feasible2 i ty v a -> Feasible i ty a.
Proof. intros [H _]; exact H. Qed.

Lemma Feasible2_second_stage i ty v a : Feasible2 i ty v a -> Forall (sat a) (second_stage i ty v).
Proof. intros [_ H]; exact H. Qed.

(* ================================================================== *)
(* (b) per-family unfold lemmas                                       *)
(* ================================================================== *)

Ltac rows_simpl :=
  repeat (rewrite Forall_cons_iff || rewrite Forall_nil_iff || rewrite Forall_app);
  unfold sat; cbn [sns lhs rhs mk eval t].

Ltac rows_solve :=
  rows_simpl; split; intros;
  repeat match goal with H : _ /\ _ |- _ => destruct H end;
  repeat split; try lra; auto.

(* ---- single-cell protein, cellulosic sugar ---- *)

Lemma sat_rows_scp i a m :
  Forall (sat a) (rows_scp i m) <->
  gross (w_scp i) * a SCP_h m + a SCP_f m + a SCP_b m <= at_ (scp_prod i) m.
Proof. unfold rows_scp. rows_solve. Qed.

Lemma sat_rows_cs i a m :
  Forall (sat a) (rows_cs i m) <->
  gross (w_cs i) * a CS_h m + a CS_f m + a CS_b m <= at_ (cs_prod i) m.
Proof. unfold rows_cs. rows_solve. Qed.

(* ---- outdoor crops ---- *)

Definition cr_consumed_eq (i : lp_in) (a : assignment) (m : nat) : Prop :=
  a CR_consumed m == gross (w_cr i) * a CR_h m + a CR_f m + a CR_b m.

Lemma sat_rows_crops_O i ty a :
  Forall (sat a) (rows_crops i ty 0) <->
  cr_consumed_eq i a 0 /\
  a CR_storage 0%nat == at_ (crops_prod i) 0 - a CR_consumed 0%nat.
Proof. unfold rows_crops, cr_consumed_eq. cbn [app]. rows_solve. Qed.

Lemma sat_rows_crops_S i ty a p :
  Forall (sat a) (rows_crops i ty (S p)) <->
  cr_consumed_eq i a (S p) /\
  a CR_storage (S p) == at_ (crops_prod i) (S p) + a CR_storage p - a CR_consumed (S p) /\
  (S p = NM i - 1 -> ty = ToHumans -> a CR_storage (S p) == 0)%nat.
Proof.
  unfold rows_crops, cr_consumed_eq. cbn [app].
  destruct (Nat.eqb_spec (S p) (NM i - 1)) as [E|E]; destruct ty; rows_simpl;
    (split; [intros; repeat match goal with H : _ /\ _ |- _ => destruct H end;
              repeat split; try lra; intros; try lra; try congruence; try discriminate
            | intros (H1 & H2 & H3); repeat split; try lra; try (specialize (H3 E eq_refl); lra)]).
Qed.

(* the last month, people-fed rounds: nothing left in storage *)
Lemma sat_rows_crops_last i a p :
  (S p = NM i - 1)%nat ->
  Forall (sat a) (rows_crops i ToHumans (S p)) -> a CR_storage (S p) == 0.
Proof. intros E H. apply sat_rows_crops_S in H. destruct H as (_ & _ & H). apply H; auto. Qed.

(* ---- stored food ---- *)

Definition sf_eaten_eq (i : lp_in) (a : assignment) (m : nat) : Prop :=
  a SF_end m == a SF_start m - gross (w_sf i) * a SF_h m - a SF_f m - a SF_b m.

Lemma sat_sf_eaten_row i a m : sat a (sf_eaten_row i m) <-> sf_eaten_eq i a m.
Proof.
  unfold sf_eaten_row, sf_eaten_eq, sat; cbn [sns lhs rhs mk eval t]. split; intros; lra.
Qed.

(* storage regime *)
Lemma sat_rows_sf_store_O i ty a :
  store_years i = true ->
  (Forall (sat a) (rows_sf i ty 0) <-> a SF_start 0%nat == sf0 i /\ sf_eaten_eq i a 0).
Proof.
  intros R. unfold rows_sf. rewrite R. cbn [app].
  rewrite !Forall_cons_iff, Forall_nil_iff, sat_sf_eaten_row.
  unfold sat; cbn [sns lhs rhs mk eval t]. split; intros; repeat split; try tauto; lra.
Qed.

Lemma sat_rows_sf_store_S i ty a p :
  store_years i = true ->
  (Forall (sat a) (rows_sf i ty (S p)) <->
   a SF_start (S p) == a SF_end p /\ sf_eaten_eq i a (S p) /\
   (S p = NM i - 1 -> ty = ToHumans -> a SF_end (S p) == 0)%nat).
Proof.
  intros R. unfold rows_sf. rewrite R.
  destruct (Nat.eqb_spec (S p) (NM i - 1)) as [E|E]; destruct ty; cbn [app];
    rewrite ?Forall_cons_iff, Forall_nil_iff, sat_sf_eaten_row;
    unfold sat; cbn [sns lhs rhs mk eval t];
    (split; [intros; repeat match goal with H : _ /\ _ |- _ => destruct H end;
              repeat split; try assumption; try lra; intros; try lra; try congruence; try discriminate
            | intros (H1 & H2 & H3); repeat split; try assumption; try lra;
              try (specialize (H3 E eq_refl); lra)]).
Qed.

(* first-year-only regime *)
Lemma sat_rows_sf_nostore_O i ty a :
  store_years i = false ->
  (Forall (sat a) (rows_sf i ty 0) <-> a SF_start 0%nat == sf0 i /\ sf_eaten_eq i a 0).
Proof.
  intros R. unfold rows_sf. rewrite R.
  rewrite !Forall_cons_iff, Forall_nil_iff, sat_sf_eaten_row.
  unfold sat; cbn [sns lhs rhs mk eval t]. split; intros; repeat split; try tauto; lra.
Qed.

Lemma sat_rows_sf_nostore_first_year i ty a p :
  store_years i = false -> (S p <= 12)%nat ->
  (Forall (sat a) (rows_sf i ty (S p)) <-> a SF_start (S p) == a SF_end p /\ sf_eaten_eq i a (S p)).
Proof.
  intros R Hm. unfold rows_sf. rewrite R.
  destruct (Nat.ltb_spec 12 (S p)) as [L|L]; [lia|].
  rewrite !Forall_cons_iff, Forall_nil_iff, sat_sf_eaten_row.
  unfold sat; cbn [sns lhs rhs mk eval t]. split; intros; repeat split; try tauto; lra.
Qed.

Lemma sat_rows_sf_nostore_later i ty a p :
  store_years i = false -> (12 < S p)%nat ->
  (Forall (sat a) (rows_sf i ty (S p)) <->
   a SF_h (S p) == 0 /\ a SF_f (S p) == 0 /\ a SF_b (S p) == 0 /\ a SF_start (S p) == a SF_end p).
Proof.
  intros R Hm. unfold rows_sf. rewrite R.
  destruct (Nat.ltb_spec 12 (S p)) as [L|L]; [|lia].
  rows_solve.
Qed.

(* ---- meat ---- *)

Lemma sat_rows_meat_store_O i a :
  store_years i = true ->
  (Forall (sat a) (rows_meat i 0) <->
   a M_start 0%nat == meat_total i /\
   a M_end 0%nat == a M_start 0%nat - gross (w_meat i) * a M_eaten 0%nat /\
   gross (w_meat i) * a M_eaten 0%nat <= at_ (meat_running i) 0 /\
   meat_total i - a M_end 0%nat <= at_ (meat_running i) 0).
Proof. intros R. unfold rows_meat. rewrite R. rows_solve. Qed.

Lemma sat_rows_meat_store_S i a p :
  store_years i = true ->
  (Forall (sat a) (rows_meat i (S p)) <->
   a M_start (S p) == a M_end p /\
   a M_end (S p) == a M_start (S p) - gross (w_meat i) * a M_eaten (S p) /\
   gross (w_meat i) * a M_eaten (S p) <= at_ (meat_running i) (S p) /\
   meat_total i - a M_end (S p) <= at_ (meat_running i) (S p)).
Proof. intros R. unfold rows_meat. rewrite R. rows_solve. Qed.

Lemma sat_rows_meat_nostore i a m :
  store_years i = false ->
  (Forall (sat a) (rows_meat i m) <-> gross (w_meat i) * a M_eaten m <= at_ (meat_monthly i) m).
Proof. intros R. unfold rows_meat. rewrite R. rows_solve. Qed.

(* ---- seaweed ---- *)

Definition sw_bounds (i : lp_in) (a : assignment) (m : nat) : Prop :=
  sw_init i <= a SW_wet m /\ a SW_wet m <= sw_max_density i * at_ (built_area i) m /\
  sw_init_area i <= a SW_area m /\ a SW_area m <= at_ (built_area i) m.

(* wet_m = wet_p*(1+g) - h_m*k - f_m - b_m - (area_m - area_p)*min_density*loss *)
Definition sw_ledger (i : lp_in) (a : assignment) (p : nat) : Prop :=
  a SW_wet (S p) ==
  a SW_wet p * (1 + at_ (growth i) (S p) / 100)
  - gross (w_sw i) * a SW_h (S p) - a SW_f (S p) - a SW_b (S p)
  - (a SW_area (S p) - a SW_area p) * sw_min_density i * (sw_harvest_loss i / 100).

Lemma sat_rows_seaweed_O i a :
  Forall (sat a) (rows_seaweed i 0) <->
  sw_bounds i a 0 /\
  a SW_wet 0%nat == sw_init i /\ a SW_area 0%nat == sw_init_area i /\
  a SW_h 0%nat == 0 /\ a SW_f 0%nat == 0 /\ a SW_b 0%nat == 0.
Proof. unfold rows_seaweed, sw_bounds. cbn [app]. rows_solve. Qed.

Lemma sat_rows_seaweed_S i a p :
  Forall (sat a) (rows_seaweed i (S p)) <-> sw_bounds i a (S p) /\ sw_ledger i a p.
Proof. unfold rows_seaweed, sw_bounds, sw_ledger. cbn [app]. rows_solve. Qed.

Lemma sat_rows_seaweed_bounds i a m : Forall (sat a) (rows_seaweed i m) -> sw_bounds i a m.
Proof.
  destruct m; [rewrite sat_rows_seaweed_O | rewrite sat_rows_seaweed_S]; tauto.
Qed.

(* ---- round 2 pins ---- *)

Lemma sat_rows_pin_humans i a c s pin m : Forall (sat a) (rows_pin i ToHumans c s pin m) <-> True.
Proof. unfold rows_pin. rewrite Forall_nil_iff. tauto. Qed.

Lemma sat_rows_pin_animals i a c s pin m :
  Forall (sat a) (rows_pin i ToAnimals c s pin m) <->
  fst (pin_bounds i) * at_ pin m <= c * a s m /\ c * a s m <= snd (pin_bounds i) * at_ pin m.
Proof. unfold rows_pin. destruct (pin_bounds i) as [lo hi]. cbn [fst snd]. rows_solve. Qed.

Lemma pin_bounds_small i : pop i < 10000000 -> pin_bounds i = (9999 # 10000, 10001 # 10000).
Proof. intros H. unfold pin_bounds. destruct (Qlt_le_dec (pop i) 10000000); [reflexivity | lra]. Qed.

Lemma pin_bounds_large i : 10000000 <= pop i -> pin_bounds i = (99999 # 100000, 100001 # 100000).
Proof. intros H. unfold pin_bounds. destruct (Qlt_le_dec (pop i) 10000000); [lra | reflexivity]. Qed.

Lemma pin_bounds_range i :
  (9999 # 10000) <= fst (pin_bounds i) /\ fst (pin_bounds i) < 1 /\
  1 < snd (pin_bounds i) /\ snd (pin_bounds i) <= (10001 # 10000).
Proof. unfold pin_bounds. destruct (Qlt_le_dec (pop i) 10000000); cbn [fst snd]; lra. Qed.

(* ---- feed / biofuel ---- *)

Lemma sat_rows_feed_biofuel_none i ty a m :
  has_nonhuman i = false -> (Forall (sat a) (rows_feed_biofuel i ty m) <-> True).
Proof. intros R. unfold rows_feed_biofuel. rewrite R, Forall_nil_iff. tauto. Qed.

Lemma sat_rows_feed_biofuel_humans i a m :
  has_nonhuman i = true ->
  (Forall (sat a) (rows_feed_biofuel i ToHumans m) <->
   feed_sum i a m == at_ (feed_charge i) m /\ biofuel_sum i a m == at_ (biofuel_charge i) m).
Proof.
  intros R. unfold rows_feed_biofuel. rewrite R.
  rewrite !Forall_cons_iff, Forall_nil_iff. unfold sat; cbn [sns lhs rhs mk].
  rewrite eval_feed_terms, eval_biofuel_terms, !Qmult_1_l. tauto.
Qed.

Lemma sat_rows_feed_biofuel_animals_O i a :
  has_nonhuman i = true ->
  (Forall (sat a) (rows_feed_biofuel i ToAnimals 0) <->
   feed_sum i a 0 <= at_ (max_feed i) 0 /\ biofuel_sum i a 0 <= at_ (max_biofuel i) 0).
Proof.
  intros R. unfold rows_feed_biofuel. rewrite R. cbn [app].
  rewrite !Forall_cons_iff, Forall_nil_iff. unfold sat; cbn [sns lhs rhs mk].
  rewrite eval_feed_terms, eval_biofuel_terms, !Qmult_1_l. tauto.
Qed.

Lemma sat_rows_feed_biofuel_animals_S i a p :
  has_nonhuman i = true ->
  (Forall (sat a) (rows_feed_biofuel i ToAnimals (S p)) <->
   feed_sum i a (S p) <= at_ (max_feed i) (S p) /\ biofuel_sum i a (S p) <= at_ (max_biofuel i) (S p) /\
   feed_sum i a (S p) <= feed_sum i a p /\ biofuel_sum i a (S p) <= biofuel_sum i a p).
Proof.
  intros R. unfold rows_feed_biofuel. rewrite R. cbn [app].
  rewrite !Forall_cons_iff, Forall_nil_iff. unfold sat; cbn [sns lhs rhs mk].
  rewrite !eval_app, !eval_feed_terms, !eval_biofuel_terms.
  split; intros; repeat match goal with H : _ /\ _ |- _ => destruct H end; repeat split; try lra; auto.
Qed.

(* ---- total human consumption ---- *)

Lemma sat_rows_consumed_animals i a m : Forall (sat a) (rows_consumed i ToAnimals m) <-> True.
Proof. unfold rows_consumed. rewrite Forall_nil_iff. tauto. Qed.

(* raw form (no hypothesis on need) *)
Lemma sat_rows_consumed_humans_raw i a m :
  Forall (sat a) (rows_consumed i ToHumans m) <->
  a Consumed m - 100 / need i * human_sum i a m == given_kcals i m / need i * 100.
Proof.
  unfold rows_consumed. rewrite Forall_cons_iff, Forall_nil_iff.
  unfold sat; cbn [sns lhs rhs mk]. unfold t at 1. rewrite eval_cons, eval_human_terms.
  split; [intros [H _] | intros H; split; [|exact I]].
  - rewrite <- H. ring.
  - rewrite <- H. ring.
Qed.

Lemma sat_rows_consumed_humans i a m :
  ~ need i == 0 ->
  (Forall (sat a) (rows_consumed i ToHumans m) <->
   a Consumed m == (human_sum i a m + given_kcals i m) / need i * 100).
Proof.
  intros Hn. rewrite sat_rows_consumed_humans_raw.
  split; intros H.
  - assert (E : a Consumed m == given_kcals i m / need i * 100 + 100 / need i * human_sum i a m) by lra.
    rewrite E. field. exact Hn.
  - rewrite H. field. exact Hn.
Qed.

(* ---- intake caps ---- *)

Definition caps_food_spec (i : lp_in) (ty : opt_type) (a : assignment) (m : nat)
           (r : Q) (sh sf sb : slot) (ch cf cb : Q) : Prop :=
  (ty = ToHumans ->
     r * a sh m <= ch / 100 * need0 i /\
     r * a sh m <= ch / 100 * (need i / 100) * a Consumed m) /\
  r * a sf m <= cf / 100 * at_ (feed_charge i) m /\
  r * a sb m <= cb / 100 * at_ (biofuel_charge i) m.

Lemma sat_rows_caps_food i ty a m r sh sf sb ch cf cb :
  Forall (sat a) (rows_caps_food i ty m r sh sf sb ch cf cb) <->
  caps_food_spec i ty a m r sh sf sb ch cf cb.
Proof.
  unfold rows_caps_food, caps_food_spec. destruct ty; cbn [app]; rows_simpl.
  - split.
    + intros; repeat match goal with H : _ /\ _ |- _ => destruct H end; repeat split; try lra.
    + intros ((H1 & H2) & H3 & H4); [reflexivity|]. repeat split; try lra.
  - split.
    + intros; repeat match goal with H : _ /\ _ |- _ => destruct H end; repeat split; try lra;
        intros; discriminate.
    + intros (_ & H3 & H4). repeat split; try lra.
Qed.

Lemma sat_rows_caps i ty a m :
  Forall (sat a) (rows_caps i ty m) <->
  (add_sw i = true ->
     caps_food_spec i ty a m (sw_kcals i) SW_h SW_f SW_b (cap_sw_h i) (cap_sw_f i) (cap_sw_b i)) /\
  (add_scp i = true ->
     caps_food_spec i ty a m 1 SCP_h SCP_f SCP_b (cap_scp_h i) (cap_scp_f i) (cap_scp_b i)) /\
  (add_cs i = true ->
     caps_food_spec i ty a m 1 CS_h CS_f CS_b (cap_cs_h i) (cap_cs_f i) (cap_cs_b i)).
Proof.
  unfold rows_caps. rewrite !Forall_app, !Forall_if_true, !sat_rows_caps_food. tauto.
Qed.

(* ---- objective rows ---- *)

Lemma sat_rows_objective_humans i a :
  Forall (sat a) (rows_objective i ToHumans) <->
  (forall m, (m < NM i)%nat -> a Obj 0%nat <= a Consumed m).
Proof.
  unfold rows_objective, months. rewrite Forall_map_seq0.
  split; intros H m Hm; specialize (H m Hm); revert H;
    unfold sat; cbn [sns lhs rhs mk eval t]; intros; lra.
Qed.

Lemma eval_nonhuman_terms i a (cf cb : Q) n :
  eval a (flat_map (fun m => feed_terms i cf m ++ biofuel_terms i cb m) (seq 0 n)) ==
  cf * sumQ (feed_sum i a) n + cb * sumQ (biofuel_sum i a) n.
Proof.
  rewrite eval_flat_map_seq0.
  rewrite (sumQ_ext _ (fun m => cf * feed_sum i a m + cb * biofuel_sum i a m)).
  - rewrite sumQ_plus, !sumQ_scale. reflexivity.
  - intros m _. rewrite eval_app, eval_feed_terms, eval_biofuel_terms. reflexivity.
Qed.

Lemma sat_rows_objective_animals i a :
  Forall (sat a) (rows_objective i ToAnimals) <->
  a Obj 0%nat <= (2 # 3) * sumQ (feed_sum i a) (NM i) + (1 # 3) * sumQ (biofuel_sum i a) (NM i).
Proof.
  unfold rows_objective, months. rewrite Forall_cons_iff, Forall_nil_iff.
  unfold sat; cbn [sns lhs rhs mk]. unfold t at 1. rewrite eval_cons, eval_nonhuman_terms.
  split; [intros [H _] | intros H; split; [|exact I]]; lra.
Qed.

(* ---- second stage rows ---- *)

Lemma sat_second_stage_humans i v a :
  Forall (sat a) (second_stage i ToHumans v) <->
  (forall m, (m < NM i)%nat -> v * (99995 # 100000) <= a Consumed m).
Proof.
  unfold second_stage, months. rewrite Forall_map_seq0.
  split; intros H m Hm; specialize (H m Hm); revert H;
    unfold sat; cbn [sns lhs rhs mk eval t]; intros; lra.
Qed.

Lemma sat_second_stage_animals i v a :
  Forall (sat a) (second_stage i ToAnimals v) <->
  v * (99995 # 100000) <= (2 # 3) * sumQ (feed_sum i a) (NM i) + (1 # 3) * sumQ (biofuel_sum i a) (NM i).
Proof.
  unfold second_stage, months. rewrite Forall_cons_iff, Forall_nil_iff.
  unfold sat; cbn [sns lhs rhs mk]. rewrite eval_nonhuman_terms.
  split; [intros [H _] | intros H; split; [|exact I]]; lra.
Qed.
