(* C16 (Coq part b): the first, no-feed, human-maximising round can never be INFEASIBLE for a
   structural reason, and its objective is bounded - so an optimum exists.

   round1_feasible_gen / round1_feasible : for admissible inputs with non-negative supplies, zero
     feed/biofuel charges and non-negative intake caps the LP `build i ToHumans` has a feasible
     point (constructed through `c02_complete` from an explicit physical allocation:
     crops eaten in the month of harvest, the whole stored food eaten in month 0, no meat, no
     SCP/CS, no feed/biofuel, objective variable 0), for every horizon NM (0 and 1 included).
   round1_objective_bounded : every feasible point has  Obj <= 100/need * (month-0 supplies).
   Seaweed: the ledger is an equality with an upper density bound, so feasibility is data dependent:
     round1_feasible_seaweed_no_growth (sufficient condition),
     round1_infeasible_seaweed_full_farm + round1_infeasible_seaweed_example (an admissible
     instance with growth that has NO feasible point). *)
From Coq Require Import QArith List Bool Arith Lia Lqa.
From Allfed Require Import Model.LP Model.Physical Proofs.LPChar Proofs.LP_C02.
Import ListNotations.
Open Scope Q_scope.

(* ================================================================== *)
(* hypotheses on the data                                             *)
(* ================================================================== *)

Definition all_nonneg (l : list Q) : Prop := forall m, 0 <= at_ l m.
Definition all_zero (l : list Q) : Prop := forall m, at_ l m == 0.

Definition supplies_nonneg (i : lp_in) : Prop :=
  0 <= sf0 i /\ 0 <= meat_total i /\
  all_nonneg (crops_prod i) /\ all_nonneg (milk i) /\ all_nonneg (greenhouse i) /\ all_nonneg (fish i) /\
  all_nonneg (scp_prod i) /\ all_nonneg (cs_prod i) /\
  all_nonneg (meat_monthly i) /\ all_nonneg (meat_running i).

Definition zero_charges (i : lp_in) : Prop :=
  all_zero (feed_charge i) /\ all_zero (biofuel_charge i).

(* the human intake caps of SCP and cellulosic sugar (percent) and the need of the initial population *)
Definition caps_nonneg (i : lp_in) : Prop :=
  0 <= need0 i /\ 0 <= cap_scp_h i /\ 0 <= cap_cs_h i.

(* seaweed farm that can stand still: nothing grows (or nothing is there), and the initial biomass
   and area fit under the density / built-area bounds of every month *)
Definition sw_static_ok (i : lp_in) : Prop :=
  0 <= sw_init i /\ 0 <= sw_init_area i /\ 0 <= cap_sw_h i /\
  (sw_init i == 0 \/ all_zero (growth i)) /\
  (forall m, (m < NM i)%nat ->
     sw_init i <= sw_max_density i * at_ (built_area i) m /\ sw_init_area i <= at_ (built_area i) m).

(* boolean versions (for instantiation on concrete data by computation) *)
Definition nonnegb (l : list Q) : bool := forallb (Qle_bool 0) l.
Definition zerob (l : list Q) : bool := forallb (fun q => Qeq_bool q 0) l.

Lemma nonnegb_sound l : nonnegb l = true -> all_nonneg l.
Proof.
  unfold nonnegb, all_nonneg, at_. induction l as [|q l IH]; cbn [forallb]; intros H m.
  - destruct m; cbn; lra.
  - apply andb_prop in H. destruct H as [Hq Hl]. apply Qle_bool_iff in Hq.
    destruct m as [|m]; cbn [nth]; [exact Hq | apply IH, Hl].
Qed.

Lemma zerob_sound l : zerob l = true -> all_zero l.
Proof.
  unfold zerob, all_zero, at_. induction l as [|q l IH]; cbn [forallb]; intros H m.
  - destruct m; cbn; reflexivity.
  - apply andb_prop in H. destruct H as [Hq Hl]. apply Qeq_bool_iff in Hq.
    destruct m as [|m]; cbn [nth]; [exact Hq | apply IH, Hl].
Qed.

Definition supplies_nonnegb (i : lp_in) : bool :=
  Qle_bool 0 (sf0 i) && Qle_bool 0 (meat_total i) &&
  nonnegb (crops_prod i) && nonnegb (milk i) && nonnegb (greenhouse i) && nonnegb (fish i) &&
  nonnegb (scp_prod i) && nonnegb (cs_prod i) && nonnegb (meat_monthly i) && nonnegb (meat_running i).

Lemma supplies_nonnegb_sound i : supplies_nonnegb i = true -> supplies_nonneg i.
Proof.
  unfold supplies_nonnegb, supplies_nonneg. intros H.
  repeat (apply andb_prop in H; destruct H as [H ?]).
  repeat split; try (apply Qle_bool_iff; assumption); apply nonnegb_sound; assumption.
Qed.

Definition zero_chargesb (i : lp_in) : bool := zerob (feed_charge i) && zerob (biofuel_charge i).

Lemma zero_chargesb_sound i : zero_chargesb i = true -> zero_charges i.
Proof.
  unfold zero_chargesb, zero_charges. intros H. apply andb_prop in H. destruct H.
  split; apply zerob_sound; assumption.
Qed.

Definition caps_nonnegb (i : lp_in) : bool :=
  Qle_bool 0 (need0 i) && Qle_bool 0 (cap_scp_h i) && Qle_bool 0 (cap_cs_h i).

Lemma caps_nonnegb_sound i : caps_nonnegb i = true -> caps_nonneg i.
Proof.
  unfold caps_nonnegb, caps_nonneg. intros H.
  repeat (apply andb_prop in H; destruct H as [H ?]).
  repeat split; apply Qle_bool_iff; assumption.
Qed.

(* ================================================================== *)
(* the witness allocation                                             *)
(* ================================================================== *)

Definition r1_first (v : Q) (m : nat) : Q := match m with O => v | S _ => 0 end.
Definition r1_zero (m : nat) : Q := 0.

Definition r1_alloc (i : lp_in) : alloc :=
  {| sf_h := r1_first (sf0 i * (1 - w_sf i / 100)); sf_f := r1_zero; sf_b := r1_zero;
     cr_h := fun m => at_ (crops_prod i) m * (1 - w_cr i / 100); cr_f := r1_zero; cr_b := r1_zero;
     scp_h := r1_zero; scp_f := r1_zero; scp_b := r1_zero;
     cs_h := r1_zero; cs_f := r1_zero; cs_b := r1_zero;
     meat_e := r1_zero;
     swd_h := r1_zero; swd_f := r1_zero; swd_b := r1_zero;
     swd_wet := fun _ => on (add_sw i) (sw_init i);
     swd_area := fun _ => on (add_sw i) (sw_init_area i) |}.

Lemma cum_first f m : (forall k, f (S k) == 0) -> cum f m == f 0%nat.
Proof.
  intros H. induction m as [|m IH]; [apply cum_0|].
  rewrite cum_S, IH, H. ring.
Qed.

Lemma cum_all_zero f m : (forall k, f k == 0) -> cum f m == 0.
Proof. intros H. rewrite cum_first by (intros; apply H). apply H. Qed.

Lemma psum_ext f g n : (forall m, (m < n)%nat -> f m == g m) -> psum f n == psum g n.
Proof. rewrite !psum_sumQ. apply sumQ_ext. Qed.

Section Witness.
  Variable i : lp_in.
  Hypothesis A : admissible i.
  Hypothesis SN : supplies_nonneg i.
  Hypothesis Z : zero_charges i.
  Hypothesis C : caps_nonneg i.
  Hypothesis W : add_sw i = true -> sw_static_ok i.

  Let x := r1_alloc i.

  Let Wsf : waste_ok (w_sf i). Proof. apply A. Qed.
  Let Wcr : waste_ok (w_cr i). Proof. apply A. Qed.

  Lemma r1_sf_use_0 : sf_use i x 0 == sf0 i.
  Proof.
    unfold sf_use, x, r1_alloc, r1_first, r1_zero; cbn [sf_h sf_f sf_b].
    pose proof (gross_spec _ Wsf) as G.
    setoid_replace (gross (w_sf i) * (sf0 i * (1 - w_sf i / 100)) + 0 + 0)
      with (sf0 i * (gross (w_sf i) * (1 - w_sf i / 100))) by ring.
    rewrite G. ring.
  Qed.

  Lemma r1_sf_use_S k : sf_use i x (S k) == 0.
  Proof. unfold sf_use, x, r1_alloc, r1_first, r1_zero; cbn [sf_h sf_f sf_b]. ring. Qed.

  Lemma r1_sf_cum m : cum (sf_use i x) m == sf0 i.
  Proof. rewrite cum_first by apply r1_sf_use_S. apply r1_sf_use_0. Qed.

  Lemma r1_cr_use m : cr_use i x m == at_ (crops_prod i) m.
  Proof.
    unfold cr_use, x, r1_alloc, r1_zero; cbn [cr_h cr_f cr_b].
    pose proof (gross_spec _ Wcr) as G.
    setoid_replace (gross (w_cr i) * (at_ (crops_prod i) m * (1 - w_cr i / 100)) + 0 + 0)
      with (at_ (crops_prod i) m * (gross (w_cr i) * (1 - w_cr i / 100))) by ring.
    rewrite G. ring.
  Qed.

  Lemma r1_meat_use m : meat_use i x m == 0.
  Proof. unfold meat_use, x, r1_alloc, r1_zero; cbn [meat_e]. ring. Qed.

  Lemma r1_feed_tot m : feed_tot i x m == 0.
  Proof.
    unfold feed_tot, x, r1_alloc, r1_zero, on; cbn [sf_f cr_f swd_f cs_f scp_f].
    destruct (add_sf i), (add_cr i), (add_sw i), (add_cs i), (add_scp i); ring.
  Qed.

  Lemma r1_bio_tot m : bio_tot i x m == 0.
  Proof.
    unfold bio_tot, x, r1_alloc, r1_zero, on; cbn [sf_b cr_b swd_b cs_b scp_b].
    destruct (add_sf i), (add_cr i), (add_sw i), (add_cs i), (add_scp i); ring.
  Qed.

  Lemma r1_sf_h_nonneg m : 0 <= sf_h x m.
  Proof.
    unfold x, r1_alloc, r1_first; cbn [sf_h]. destruct m; [|lra].
    apply Qmult_le_0_compat; [apply SN | apply Qlt_le_weak, waste_den_pos, Wsf].
  Qed.

  Lemma r1_cr_h_nonneg m : 0 <= cr_h x m.
  Proof.
    unfold x, r1_alloc; cbn [cr_h].
    apply Qmult_le_0_compat; [apply SN | apply Qlt_le_weak, waste_den_pos, Wcr].
  Qed.

  Lemma r1_sw_nonneg : 0 <= on (add_sw i) (sw_init i) /\ 0 <= on (add_sw i) (sw_init_area i).
  Proof.
    unfold on. destruct (add_sw i) eqn:E; [|split; lra].
    destruct (W eq_refl) as (H1 & H2 & _). split; assumption.
  Qed.

  Lemma r1_nonneg : alloc_nonneg x.
  Proof.
    intros m. pose proof (r1_sf_h_nonneg m). pose proof (r1_cr_h_nonneg m).
    pose proof r1_sw_nonneg as [? ?].
    unfold x, r1_alloc, r1_zero in *;
      cbn [sf_h sf_f sf_b cr_h cr_f cr_b scp_h scp_f scp_b cs_h cs_f cs_b meat_e
           swd_h swd_f swd_b swd_wet swd_area] in *.
    repeat split; try assumption; lra.
  Qed.

  Lemma r1_human_tot_nonneg m : 0 <= human_tot i x m.
  Proof.
    pose proof (r1_sf_h_nonneg m). pose proof (r1_cr_h_nonneg m).
    unfold human_tot, on. unfold x, r1_alloc, r1_zero in *;
      cbn [sf_h cr_h swd_h meat_e cs_h scp_h] in *.
    destruct (add_sf i), (add_cr i), (add_sw i), (add_meat i), (add_cs i), (add_scp i); lra.
  Qed.

  Lemma r1_kcal_nonneg m : 0 <= kcal i x m.
  Proof.
    unfold kcal. pose proof (r1_human_tot_nonneg m).
    destruct SN as (_ & _ & _ & Hm & Hg & Hf & _).
    specialize (Hm m). specialize (Hg m). specialize (Hf m). lra.
  Qed.

  Lemma r1_caps_zero m (r ch cf cb : Q) :
    0 <= ch -> resilient_caps i ToHumans x m r r1_zero r1_zero r1_zero ch cf cb.
  Proof.
    intros Hc. destruct C as (Hn & _). destruct Z as (Zf & Zb).
    unfold resilient_caps, r1_zero. rewrite (Zf m), (Zb m).
    assert (0 <= ch / 100) by (rewrite Qdiv100; lra).
    pose proof (r1_kcal_nonneg m).
    assert (0 <= ch / 100 * need0 i) by (apply Qmult_le_0_compat; assumption).
    assert (0 <= ch / 100 * kcal i x m) by (apply Qmult_le_0_compat; assumption).
    repeat split; try lra.
  Qed.

  Lemma r1_physical : Physical i ToHumans x.
  Proof.
    constructor.
    - exact r1_nonneg.
    - intros _ m _. unfold scp_use, x, r1_alloc, r1_zero; cbn [scp_h scp_f scp_b].
      destruct SN as (_ & _ & _ & _ & _ & _ & H & _). specialize (H m). lra.
    - intros _ m _. unfold cs_use, x, r1_alloc, r1_zero; cbn [cs_h cs_f cs_b].
      destruct SN as (_ & _ & _ & _ & _ & _ & _ & H & _). specialize (H m). lra.
    - intros _ m _. rewrite r1_sf_cum. lra.
    - intros _ _ m _ Hm. destruct m as [|m]; [lia|].
      unfold x, r1_alloc, r1_first, r1_zero; cbn [sf_h sf_f sf_b]. repeat split; reflexivity.
    - intros _ _ _ HN. destruct (NM i) as [|n]; [lia|].
      change (psum (sf_use i x) (S n)) with (cum (sf_use i x) n). apply r1_sf_cum.
    - intros _ m _. unfold cum. rewrite (psum_ext (cr_use i x) (at_ (crops_prod i))); [lra|].
      intros; apply r1_cr_use.
    - intros _ _ _. apply psum_ext. intros; apply r1_cr_use.
    - intros _ _ m _. rewrite (cum_all_zero _ m r1_meat_use).
      destruct SN as (_ & Ht & _ & _ & _ & _ & _ & _ & _ & Hr). split; [apply Hr | exact Ht].
    - intros _ _ m _. rewrite r1_meat_use.
      destruct SN as (_ & _ & _ & _ & _ & _ & _ & _ & Hm & _). apply Hm.
    - intros Hsw m Hm. destruct (W Hsw) as (_ & _ & _ & _ & Hb). specialize (Hb m Hm).
      unfold x, r1_alloc, on; cbn [swd_wet swd_area]. rewrite Hsw.
      destruct Hb. repeat split; try assumption; lra.
    - intros Hsw _. unfold x, r1_alloc, on, r1_zero; cbn [swd_wet swd_area swd_h swd_f swd_b].
      rewrite Hsw. repeat split; reflexivity.
    - intros Hsw p _. destruct (W Hsw) as (_ & _ & _ & Hg & _).
      unfold x, r1_alloc, on, r1_zero; cbn [swd_wet swd_area swd_h swd_f swd_b]. rewrite Hsw.
      destruct Hg as [H0 | Hg]; [rewrite H0 | rewrite (Hg (S p))].
      + ring.
      + unfold Qdiv. ring.
    - intros _ _ m _. destruct Z as (Zf & Zb). rewrite r1_feed_tot, r1_bio_tot, (Zf m), (Zb m).
      split; reflexivity.
    - intros H; discriminate H.
    - intros H; discriminate H.
    - intros H; discriminate H.
    - intros m _. destruct C as (_ & Hs & Hc). split; [|split].
      + intros Hsw. destruct (W Hsw) as (_ & _ & Hw & _). apply (r1_caps_zero m); exact Hw.
      + intros _. apply (r1_caps_zero m); exact Hs.
      + intros _. apply (r1_caps_zero m); exact Hc.
  Qed.

  Lemma r1_achieves : achieves i ToHumans x 0.
  Proof.
    intros m _. unfold percent. pose proof (r1_kcal_nonneg m) as K.
    assert (0 < need i) as N by apply (admissible_need i A).
    assert (0 <= kcal i x m / need i).
    { apply Qle_shift_div_l; [exact N | lra]. }
    lra.
  Qed.

  Lemma r1_feasible_witness :
    exists a, Feasible i ToHumans a /\ alloc_eq (proj a) (r1_alloc i) /\ a Obj 0%nat == 0.
  Proof.
    apply c02_complete; [exact A | exact r1_physical | lra | exact r1_achieves].
  Qed.
End Witness.

(* ================================================================== *)
(* 1. feasibility of the no-feed round                                *)
(* ================================================================== *)

(* general form: seaweed allowed when the farm can stand still *)
Lemma round1_feasible_gen i :
  admissible i -> supplies_nonneg i -> zero_charges i -> caps_nonneg i ->
  (add_sw i = true -> sw_static_ok i) ->
  exists a, Feasible i ToHumans a.
Proof.
  intros A SN Z C W. destruct (r1_feasible_witness i A SN Z C W) as (a & F & _). exists a; exact F.
Qed.

Lemma round1_feasible i :
  admissible i -> add_sw i = false -> supplies_nonneg i -> zero_charges i -> caps_nonneg i ->
  exists a, Feasible i ToHumans a.
Proof.
  intros A Hsw SN Z C. apply round1_feasible_gen; try assumption.
  intros H. rewrite Hsw in H. discriminate H.
Qed.

(* the same with the witness described: the feasible point uses exactly `r1_alloc i`
   (crops eaten when harvested, stored food eaten in month 0, nothing else) and has objective 0 *)
Lemma round1_feasible_witness i :
  admissible i -> add_sw i = false -> supplies_nonneg i -> zero_charges i -> caps_nonneg i ->
  exists a, Feasible i ToHumans a /\ alloc_eq (proj a) (r1_alloc i) /\ a Obj 0%nat == 0.
Proof.
  intros A Hsw SN Z C. apply r1_feasible_witness; try assumption.
  intros H. rewrite Hsw in H. discriminate H.
Qed.

(* 3a. seaweed present, nothing grows (or no initial seaweed) *)
Lemma round1_feasible_seaweed_no_growth i :
  admissible i -> add_sw i = true -> supplies_nonneg i -> zero_charges i -> caps_nonneg i ->
  sw_static_ok i ->
  exists a, Feasible i ToHumans a.
Proof. intros A _ SN Z C W. apply round1_feasible_gen; auto. Qed.

(* ================================================================== *)
(* 2. the objective is bounded                                        *)
(* ================================================================== *)

(* what can reach humans in month 0, before waste (billion kcal) *)
Definition meat_bound0 (i : lp_in) : Q :=
  if store_years i then at_ (meat_running i) 0 else at_ (meat_monthly i) 0.

Definition supply0 (i : lp_in) : Q :=
  bq (add_sf i) (sf0 i) + bq (add_cr i) (at_ (crops_prod i) 0) + bq (add_meat i) (meat_bound0 i) +
  bq (add_cs i) (at_ (cs_prod i) 0) + bq (add_scp i) (at_ (scp_prod i) 0) + given_kcals i 0.

Lemma le_gross w v : waste_ok w -> 0 <= v -> v <= gross w * v.
Proof. intros Hw Hv. pose proof (gross_ge_1 w Hw). nra. Qed.

Section Bounded.
  Variables (i : lp_in) (a : assignment).
  Hypothesis A : admissible i.
  Hypothesis N : (0 < NM i)%nat.
  Hypothesis F : Feasible i ToHumans a.

  Let NN := Feasible_nonneg i ToHumans a F.

  Lemma r1b_sf : bq (add_sf i) (a SF_h 0%nat) <= bq (add_sf i) (sf0 i).
  Proof.
    destruct (add_sf i) eqn:E; cbn [bq]; [|lra].
    pose proof (Feasible_sf i ToHumans a F 0%nat E N) as H.
    assert (a SF_start 0%nat == sf0 i /\ sf_eaten_eq i a 0) as [H1 H2].
    { destruct (store_years i) eqn:R;
        [apply (sat_rows_sf_store_O i ToHumans a R) | apply (sat_rows_sf_nostore_O i ToHumans a R)]; exact H. }
    unfold sf_eaten_eq in H2.
    assert (waste_ok (w_sf i)) as Hw by apply A.
    pose proof (le_gross _ _ Hw (NN SF_h 0%nat)).
    pose proof (NN SF_end 0%nat). pose proof (NN SF_f 0%nat). pose proof (NN SF_b 0%nat). lra.
  Qed.

  Lemma r1b_cr : bq (add_cr i) (a CR_h 0%nat) <= bq (add_cr i) (at_ (crops_prod i) 0).
  Proof.
    destruct (add_cr i) eqn:E; cbn [bq]; [|lra].
    pose proof (Feasible_crops i ToHumans a F 0%nat E N) as H.
    apply sat_rows_crops_O in H. destruct H as [H1 H2]. unfold cr_consumed_eq in H1.
    assert (waste_ok (w_cr i)) as Hw by apply A.
    pose proof (le_gross _ _ Hw (NN CR_h 0%nat)).
    pose proof (NN CR_storage 0%nat). pose proof (NN CR_f 0%nat). pose proof (NN CR_b 0%nat). lra.
  Qed.

  Lemma r1b_meat : bq (add_meat i) (a M_eaten 0%nat) <= bq (add_meat i) (meat_bound0 i).
  Proof.
    destruct (add_meat i) eqn:E; cbn [bq]; [|lra].
    pose proof (Feasible_meat i ToHumans a F 0%nat E N) as H.
    assert (waste_ok (w_meat i)) as Hw by apply A.
    pose proof (le_gross _ _ Hw (NN M_eaten 0%nat)).
    unfold meat_bound0. destruct (store_years i) eqn:R.
    - apply (sat_rows_meat_store_O i a R) in H. destruct H as (_ & _ & H & _). lra.
    - apply (sat_rows_meat_nostore i a 0 R) in H. lra.
  Qed.

  Lemma r1b_cs : bq (add_cs i) (a CS_h 0%nat) <= bq (add_cs i) (at_ (cs_prod i) 0).
  Proof.
    destruct (add_cs i) eqn:E; cbn [bq]; [|lra].
    pose proof (Feasible_cs i ToHumans a F 0%nat E N) as H. apply sat_rows_cs in H.
    assert (waste_ok (w_cs i)) as Hw by apply A.
    pose proof (le_gross _ _ Hw (NN CS_h 0%nat)).
    pose proof (NN CS_f 0%nat). pose proof (NN CS_b 0%nat). lra.
  Qed.

  Lemma r1b_scp : bq (add_scp i) (a SCP_h 0%nat) <= bq (add_scp i) (at_ (scp_prod i) 0).
  Proof.
    destruct (add_scp i) eqn:E; cbn [bq]; [|lra].
    pose proof (Feasible_scp i ToHumans a F 0%nat E N) as H. apply sat_rows_scp in H.
    assert (waste_ok (w_scp i)) as Hw by apply A.
    pose proof (le_gross _ _ Hw (NN SCP_h 0%nat)).
    pose proof (NN SCP_f 0%nat). pose proof (NN SCP_b 0%nat). lra.
  Qed.

  (* seaweed (if any) is not harvested in month 0 *)
  Lemma r1b_sw : bq (add_sw i) (sw_kcals i * a SW_h 0%nat) == 0.
  Proof.
    destruct (add_sw i) eqn:E; cbn [bq]; [|reflexivity].
    pose proof (Feasible_seaweed i ToHumans a F 0%nat E N) as H.
    apply sat_rows_seaweed_O in H. destruct H as (_ & _ & _ & H & _). rewrite H. ring.
  Qed.

  Lemma r1b_human_sum : human_sum i a 0 + given_kcals i 0 <= supply0 i.
  Proof.
    unfold human_sum, supply0.
    pose proof r1b_sf. pose proof r1b_cr. pose proof r1b_meat. pose proof r1b_cs. pose proof r1b_scp.
    pose proof r1b_sw. lra.
  Qed.

  Lemma round1_consumed0_bounded : a Consumed 0%nat <= 100 / need i * supply0 i.
  Proof.
    assert (0 < need i) as Hn by apply (admissible_need i A).
    pose proof (Feasible_consumed i ToHumans a F 0%nat N) as H.
    apply sat_rows_consumed_humans_raw in H.
    assert (0 < 100 / need i) as Hp.
    { apply Qlt_shift_div_l; [exact Hn | lra]. }
    assert (E : given_kcals i 0 / need i * 100 == 100 / need i * given_kcals i 0).
    { field. intro HE; lra. }
    pose proof r1b_human_sum as B.
    assert (100 / need i * (human_sum i a 0 + given_kcals i 0) <= 100 / need i * supply0 i).
    { apply Qmult_le_l; assumption. }
    lra.
  Qed.

  Lemma round1_obj_le_consumed0 : a Obj 0%nat <= a Consumed 0%nat.
  Proof.
    pose proof (Feasible_objective i ToHumans a F) as H.
    apply (proj1 (sat_rows_objective_humans i a) H). exact N.
  Qed.

  Lemma round1_objective_bounded_sec : a Obj 0%nat <= 100 / need i * supply0 i.
  Proof. pose proof round1_obj_le_consumed0. pose proof round1_consumed0_bounded. lra. Qed.
End Bounded.

(* every feasible point of the no-feed round (seaweed or not) has its objective below
   100/need * (stored food + month-0 crops + month-0 meat + month-0 CS + SCP + milk + greenhouse + fish) *)
Lemma round1_objective_bounded i a :
  admissible i -> (0 < NM i)%nat -> Feasible i ToHumans a ->
  a Obj 0%nat <= a Consumed 0%nat /\
  a Consumed 0%nat <= 100 / need i * supply0 i /\
  a Obj 0%nat <= 100 / need i * supply0 i.
Proof.
  intros A N F. split; [|split].
  - apply (round1_obj_le_consumed0 i a N F).
  - apply round1_consumed0_bounded; assumption.
  - apply round1_objective_bounded_sec; assumption.
Qed.

(* feasible and bounded together: the set of objective values of the no-feed round is a non-empty
   subset of [0 .. 100/need * supply0] containing 0 *)
Lemma round1_feasible_and_bounded i :
  admissible i -> (0 < NM i)%nat -> add_sw i = false ->
  supplies_nonneg i -> zero_charges i -> caps_nonneg i ->
  (exists a, Feasible i ToHumans a /\ a Obj 0%nat == 0) /\
  (forall a, Feasible i ToHumans a -> 0 <= a Obj 0%nat <= 100 / need i * supply0 i).
Proof.
  intros A N Hsw SN Z C. split.
  - destruct (round1_feasible_witness i A Hsw SN Z C) as (a & F & _ & E). exists a. split; assumption.
  - intros a F. split; [apply (Feasible_nonneg i ToHumans a F) |].
    apply round1_objective_bounded; assumption.
Qed.

(* ================================================================== *)
(* 3b. with growth the seaweed ledger can make the round infeasible   *)
(* ================================================================== *)

Lemma pos_mul_le0 k h : 0 < k -> 0 <= h -> k * h <= 0 -> h == 0.
Proof. intros Hk Hh H. nra. Qed.

(* a full farm that keeps growing while nothing may be harvested (human cap 0, no feed / biofuel
   charge in month 1, no harvest loss): the month-1 ledger forces wet_1 = sw_init*(1+g_1) above the
   density bound - no feasible point, whatever the other foods are *)
Lemma round1_infeasible_seaweed_full_farm i :
  admissible i -> add_sw i = true -> (2 <= NM i)%nat ->
  cap_sw_h i == 0 ->
  at_ (feed_charge i) 1 == 0 -> at_ (biofuel_charge i) 1 == 0 ->
  sw_harvest_loss i == 0 ->
  sw_max_density i * at_ (built_area i) 1 < sw_init i * (1 + at_ (growth i) 1 / 100) ->
  ~ exists a, Feasible i ToHumans a.
Proof.
  intros A Hsw HN Hcap Hf Hb Hl Hfull [a F].
  pose proof (Feasible_nonneg i ToHumans a F) as NN.
  assert (0 < sw_kcals i) as Hk by apply A.
  pose proof (Feasible_seaweed i ToHumans a F 0%nat Hsw ltac:(lia)) as H0.
  pose proof (Feasible_seaweed i ToHumans a F 1%nat Hsw ltac:(lia)) as H1.
  pose proof (Feasible_caps i ToHumans a F 1%nat ltac:(lia)) as Hc.
  apply sat_rows_seaweed_O in H0. destruct H0 as (_ & W0 & _).
  apply sat_rows_seaweed_S in H1. destruct H1 as ((_ & Wmax & _) & L).
  apply sat_rows_caps in Hc. destruct Hc as (Hc & _). specialize (Hc Hsw).
  destruct Hc as (Hh & Hcf & Hcb). destruct (Hh eq_refl) as (Hh1 & _).
  rewrite Hcap in Hh1. rewrite Hf in Hcf. rewrite Hb in Hcb.
  assert (a SW_h 1%nat == 0) as Eh.
  { apply (pos_mul_le0 (sw_kcals i)); [exact Hk | apply NN |].
    assert (0 / 100 * need0 i == 0) as E0 by (unfold Qdiv; ring). rewrite E0 in Hh1. exact Hh1. }
  assert (a SW_f 1%nat == 0) as Ef.
  { apply (pos_mul_le0 (sw_kcals i)); [exact Hk | apply NN |].
    assert (cap_sw_f i / 100 * 0 == 0) as E0 by ring. rewrite E0 in Hcf. exact Hcf. }
  assert (a SW_b 1%nat == 0) as Eb.
  { apply (pos_mul_le0 (sw_kcals i)); [exact Hk | apply NN |].
    assert (cap_sw_b i / 100 * 0 == 0) as E0 by ring. rewrite E0 in Hcb. exact Hcb. }
  unfold sw_ledger in L. rewrite Eh, Ef, Eb, Hl, W0 in L.
  assert (a SW_wet 1%nat == sw_init i * (1 + at_ (growth i) 1 / 100)) as E.
  { rewrite L. unfold Qdiv. ring. }
  rewrite E in Wmax. lra.
Qed.

(* concrete instance: 2 months, only seaweed, farm full (10 = max_density*built), growth 100 %,
   all caps 0, zero charges.  Admissible, supplies non-negative, zero charges - and infeasible. *)
Definition sw_bad : lp_in :=
  {| NM := 2;
     add_sw := true; add_cr := false; add_sf := false; add_meat := false; add_scp := false; add_cs := false;
     store_years := true;
     pop := 1000000; kcals_monthly_pp := 63000; need := 63;
     w_sf := 0; w_cr := 0; w_meat := 0; w_scp := 0; w_cs := 0; w_sw := 0;
     sf0 := 0; meat_total := 0;
     sw_kcals := 1; sw_init := 10; sw_init_area := 1; sw_min_density := 1; sw_max_density := 10;
     sw_harvest_loss := 0;
     relocated := false; harvest_delay := 0;
     cap_sw_h := 0; cap_sw_f := 0; cap_sw_b := 0;
     cap_scp_h := 0; cap_scp_f := 0; cap_scp_b := 0;
     cap_cs_h := 0; cap_cs_f := 0; cap_cs_b := 0;
     crops_prod := [0; 0]; milk := [0; 0]; greenhouse := [0; 0]; fish := [0; 0];
     scp_prod := [0; 0]; cs_prod := [0; 0]; built_area := [1; 1]; growth := [100; 100];
     feed_charge := [0; 0]; biofuel_charge := [0; 0];
     meat_monthly := [0; 0]; meat_running := [0; 0];
     max_feed := []; max_biofuel := [];
     pin_cr := []; pin_sf := []; pin_meat := []; pin_scp := []; pin_cs := []; pin_sw := [] |}.

Ltac qcs16 := vm_compute; repeat match goal with |- _ /\ _ => split end; first [reflexivity | discriminate].

Lemma sw_bad_admissible : admissible sw_bad.
Proof. unfold admissible, waste_ok. qcs16. Qed.

Lemma round1_infeasible_seaweed_example :
  admissible sw_bad /\ supplies_nonneg sw_bad /\ zero_charges sw_bad /\ caps_nonneg sw_bad /\
  ~ exists a, Feasible sw_bad ToHumans a.
Proof.
  split; [exact sw_bad_admissible|].
  split; [apply supplies_nonnegb_sound; vm_compute; reflexivity|].
  split; [apply zero_chargesb_sound; vm_compute; reflexivity|].
  split; [apply caps_nonnegb_sound; vm_compute; reflexivity|].
  apply round1_infeasible_seaweed_full_farm.
  - exact sw_bad_admissible.
  - reflexivity.
  - cbn; lia.
  - reflexivity.
  - reflexivity.
  - reflexivity.
  - reflexivity.
  - vm_compute. reflexivity.
Qed.

(* the same farm without growth is feasible (the sufficient condition is not vacuous) *)
Definition sw_still : lp_in :=
  {| NM := 2;
     add_sw := true; add_cr := false; add_sf := false; add_meat := false; add_scp := false; add_cs := false;
     store_years := true;
     pop := 1000000; kcals_monthly_pp := 63000; need := 63;
     w_sf := 0; w_cr := 0; w_meat := 0; w_scp := 0; w_cs := 0; w_sw := 0;
     sf0 := 0; meat_total := 0;
     sw_kcals := 1; sw_init := 10; sw_init_area := 1; sw_min_density := 1; sw_max_density := 10;
     sw_harvest_loss := 0;
     relocated := false; harvest_delay := 0;
     cap_sw_h := 0; cap_sw_f := 0; cap_sw_b := 0;
     cap_scp_h := 0; cap_scp_f := 0; cap_scp_b := 0;
     cap_cs_h := 0; cap_cs_f := 0; cap_cs_b := 0;
     crops_prod := [0; 0]; milk := [0; 0]; greenhouse := [0; 0]; fish := [0; 0];
     scp_prod := [0; 0]; cs_prod := [0; 0]; built_area := [1; 1]; growth := [0; 0];
     feed_charge := [0; 0]; biofuel_charge := [0; 0];
     meat_monthly := [0; 0]; meat_running := [0; 0];
     max_feed := []; max_biofuel := [];
     pin_cr := []; pin_sf := []; pin_meat := []; pin_scp := []; pin_cs := []; pin_sw := [] |}.

Lemma sw_still_static : sw_static_ok sw_still.
Proof.
  unfold sw_static_ok. repeat split; try (vm_compute; discriminate).
  - right. apply zerob_sound. vm_compute. reflexivity.
  - destruct m as [|[|m]]; [vm_compute; discriminate | vm_compute; discriminate | cbn in H; lia].
  - destruct m as [|[|m]]; [vm_compute; discriminate | vm_compute; discriminate | cbn in H; lia].
Qed.

Lemma round1_feasible_seaweed_example : exists a, Feasible sw_still ToHumans a.
Proof.
  apply round1_feasible_seaweed_no_growth.
  - unfold admissible, waste_ok. qcs16.
  - reflexivity.
  - apply supplies_nonnegb_sound; vm_compute; reflexivity.
  - apply zero_chargesb_sound; vm_compute; reflexivity.
  - apply caps_nonnegb_sound; vm_compute; reflexivity.
  - exact sw_still_static.
Qed.

(* ================================================================== *)
(* non-vacuity of round1_feasible: a 3-month instance                 *)
(* ================================================================== *)

Definition r1_ex : lp_in :=
  {| NM := 3;
     add_sw := false; add_cr := true; add_sf := true; add_meat := true; add_scp := true; add_cs := true;
     store_years := true;
     pop := 1000000000; kcals_monthly_pp := 100; need := 100;
     w_sf := 12; w_cr := 20; w_meat := 4; w_scp := 12; w_cs := 12; w_sw := 12;
     sf0 := 30; meat_total := 9;
     sw_kcals := 1; sw_init := 1; sw_init_area := 1; sw_min_density := 1; sw_max_density := 10;
     sw_harvest_loss := 0; relocated := true; harvest_delay := 1;
     cap_sw_h := 10; cap_sw_f := 10; cap_sw_b := 10;
     cap_scp_h := 50; cap_scp_f := 10; cap_scp_b := 10;
     cap_cs_h := 30; cap_cs_f := 10; cap_cs_b := 10;
     crops_prod := [20; 0; 25]; milk := [1; 1; 1]; greenhouse := [0; 1; 2]; fish := [1; 1; 1];
     scp_prod := [0; 5; 5]; cs_prod := [0; 0; 5]; built_area := [1; 1; 1]; growth := [100; 100; 100];
     feed_charge := [0; 0; 0]; biofuel_charge := [0; 0; 0];
     meat_monthly := [3; 3; 3]; meat_running := [3; 6; 9];
     max_feed := []; max_biofuel := [];
     pin_cr := []; pin_sf := []; pin_meat := []; pin_scp := []; pin_cs := []; pin_sw := [] |}.

Lemma r1_ex_admissible : admissible r1_ex.
Proof. unfold admissible, waste_ok. qcs16. Qed.

Lemma r1_ex_hyps :
  admissible r1_ex /\ add_sw r1_ex = false /\ supplies_nonneg r1_ex /\ zero_charges r1_ex /\
  caps_nonneg r1_ex.
Proof.
  split; [exact r1_ex_admissible|]. split; [reflexivity|].
  split; [apply supplies_nonnegb_sound; vm_compute; reflexivity|].
  split; [apply zero_chargesb_sound; vm_compute; reflexivity|].
  apply caps_nonnegb_sound; vm_compute; reflexivity.
Qed.

(* the hypotheses hold on the instance, the round is feasible, and every feasible point's objective
   lies in [0, 100/100 * (30 + 20 + 3 + 0 + 0 + 2)] = [0, 55] *)
Lemma round1_nonvacuous :
  (admissible r1_ex /\ add_sw r1_ex = false /\ supplies_nonneg r1_ex /\ zero_charges r1_ex /\
   caps_nonneg r1_ex) /\
  (exists a, Feasible r1_ex ToHumans a) /\
  (forall a, Feasible r1_ex ToHumans a -> 0 <= a Obj 0%nat <= 55).
Proof.
  split; [exact r1_ex_hyps|]. destruct r1_ex_hyps as (A & Hsw & SN & Z & C).
  split; [apply round1_feasible; assumption|].
  intros a F. split; [apply (Feasible_nonneg _ _ _ F)|].
  destruct (round1_objective_bounded r1_ex a A ltac:(cbn; lia) F) as (_ & _ & H).
  assert (E : 100 / need r1_ex * supply0 r1_ex == 55) by (vm_compute; reflexivity).
  rewrite E in H. exact H.
Qed.
