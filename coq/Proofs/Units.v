From Coq Require Import QArith List String Bool Lqa Lia.
From Allfed Require Import Base.StrUtil Gen.UnitTables Model.Units.
Import ListNotations.
Open Scope Q_scope.
Open Scope string_scope.

Definition positive_settings (c : conv) : Prop :=
  0 < kcals_daily c /\ 0 < fat_daily c /\ 0 < protein_daily c /\ 0 < population c.

(* ---------- positivity of every multiplier ---------- *)

Lemma Qdiv_pos a b : 0 < a -> 0 < b -> 0 < a / b.
Proof. intros Ha Hb. unfold Qdiv. apply Qmult_lt_0_compat; [assumption|]. now apply Qinv_lt_0_compat. Qed.

Ltac qnz := repeat split; intro HE; lra.

Ltac qpos :=
  repeat first
    [ assumption
    | apply Qmult_lt_0_compat
    | apply Qdiv_pos
    | apply Qinv_lt_0_compat
    | reflexivity ].

Definition all_pos (t : list (string * Q)) : Prop := Forall (fun kv => 0 < snd kv) t.

Lemma kcal_mult_pos c : positive_settings c -> all_pos (kcal_mult c).
Proof.
  intros (Hk & Hf & Hp & Hn). unfold all_pos, kcal_mult. unfold_units.
  repeat (constructor; [cbn [snd]; qpos|]). constructor.
Qed.

Lemma fat_mult_pos c : positive_settings c -> all_pos (fat_mult c).
Proof.
  intros (Hk & Hf & Hp & Hn). unfold all_pos, fat_mult. unfold_units.
  repeat (constructor; [cbn [snd]; qpos|]). constructor.
Qed.

Lemma protein_mult_pos c : positive_settings c -> all_pos (protein_mult c).
Proof.
  intros (Hk & Hf & Hp & Hn). unfold all_pos, protein_mult. unfold_units.
  repeat (constructor; [cbn [snd]; qpos|]). constructor.
Qed.

Lemma lookup_pos t k m : all_pos t -> lookup k t = Some m -> 0 < m.
Proof.
  intros Hall Hl. apply lookup_In in Hl. unfold all_pos in Hall.
  rewrite Forall_forall in Hall. exact (Hall _ Hl).
Qed.

(* ---------- generic round trip / triangle (from the shape of get_conversion) ---------- *)

Lemma conversion_ok t u v :
  forall cu, conversion t u v = Ok cu ->
  exists mu mv, lookup u t = Some mu /\ lookup v t = Some mv /\ cu = conversion_formula mu mv.
Proof.
  unfold conversion. intros cu. destruct (lookup u t) as [mu|]; [|discriminate].
  destruct (lookup v t) as [mv|]; [|discriminate]. intro H; inversion H; subst. eauto.
Qed.

Lemma conversion_defined t u v mu mv :
  lookup u t = Some mu -> lookup v t = Some mv -> conversion t u v = Ok (conversion_formula mu mv).
Proof. unfold conversion. now intros -> ->. Qed.

Lemma roundtrip_generic t u v cuv cvu :
  all_pos t -> conversion t u v = Ok cuv -> conversion t v u = Ok cvu -> cuv * cvu == 1.
Proof.
  intros Hpos H1 H2.
  apply conversion_ok in H1 as (mu & mv & Hu & Hv & ->).
  apply conversion_ok in H2 as (mv' & mu' & Hv' & Hu' & ->).
  rewrite Hv in Hv'; inversion Hv'; subst mv'. rewrite Hu in Hu'; inversion Hu'; subst mu'.
  pose proof (lookup_pos _ _ _ Hpos Hu). pose proof (lookup_pos _ _ _ Hpos Hv).
  unfold conversion_formula. field. qnz.
Qed.

Lemma triangle_generic t u v w cuv cvw cuw :
  all_pos t -> conversion t u v = Ok cuv -> conversion t v w = Ok cvw ->
  conversion t u w = Ok cuw -> cuw == cuv * cvw.
Proof.
  intros Hpos H1 H2 H3.
  apply conversion_ok in H1 as (mu & mv & Hu & Hv & ->).
  apply conversion_ok in H2 as (mv' & mw & Hv' & Hw & ->).
  apply conversion_ok in H3 as (mu' & mw' & Hu' & Hw' & ->).
  rewrite Hv in Hv'; inversion Hv'; subst mv'. rewrite Hu in Hu'; inversion Hu'; subst mu'.
  rewrite Hw in Hw'; inversion Hw'; subst mw'.
  pose proof (lookup_pos _ _ _ Hpos Hu). pose proof (lookup_pos _ _ _ Hpos Hv).
  pose proof (lookup_pos _ _ _ Hpos Hw).
  unfold conversion_formula. field. qnz.
Qed.

(* conversion between two known units is always defined *)
Lemma conversion_total t u v :
  In u (map fst t) -> In v (map fst t) -> exists cuv, conversion t u v = Ok cuv.
Proof.
  assert (L : forall k, In k (map fst t) -> exists m, lookup k t = Some m).
  { induction t as [|[k' m'] t IH]; simpl; [tauto|]. intros k [->|Hin].
    - rewrite String.eqb_refl. eauto.
    - destruct (String.eqb k k'); eauto. }
  intros Hu Hv. destruct (L _ Hu) as [mu Hmu]. destruct (L _ Hv) as [mv Hmv].
  exists (conversion_formula mu mv). now apply conversion_defined.
Qed.

(* ---------- suffix consistency: bare / each month / per month spellings agree ---------- *)

Definition suffix_consistent (t : list (string * Q)) : Prop :=
  forall k1 m1 k2 m2, In (k1, m1) t -> In (k2, m2) t -> same_base k1 k2 = true -> m1 == m2.

Ltac in_cases H :=
  repeat (destruct H as [H|H]; [inversion H; subst; clear H|]); try contradiction.

Ltac suffix_tac c Hs :=
  destruct Hs as (Hk & Hf & Hp & Hn);
  intros k1 m1 k2 m2 H1 H2 Hsb;
  cbn [In] in H1; in_cases H1; cbn [In] in H2; in_cases H2;
  vm_compute in Hsb;
  first [ discriminate Hsb | (unfold_units; field; qnz) ].


Lemma kcal_suffix_consistent c : positive_settings c -> suffix_consistent (kcal_mult c).
Proof. intro Hs. unfold suffix_consistent, kcal_mult. suffix_tac c Hs. Qed.

Lemma fat_suffix_consistent c : positive_settings c -> suffix_consistent (fat_mult c).
Proof. intro Hs. unfold suffix_consistent, fat_mult. suffix_tac c Hs. Qed.

Lemma protein_suffix_consistent c : positive_settings c -> suffix_consistent (protein_mult c).
Proof. intro Hs. unfold suffix_consistent, protein_mult. suffix_tac c Hs. Qed.

(* every unit has all three spellings in its table (so the suffix branches of in_units never miss) *)
Definition spellings_complete (ks : list string) : bool :=
  forallb (fun k => str_mem (base_of k) ks && str_mem (base_of k ++ " each month") ks
                    && str_mem (base_of k ++ " per month") ks) ks.

Lemma spellings_complete_all :
  spellings_complete kcal_keys = true /\ spellings_complete fat_keys = true /\
  spellings_complete protein_keys = true.
Proof. repeat split; vm_compute; reflexivity. Qed.

Lemma keys_are_keys c :
  map fst (kcal_mult c) = kcal_keys /\ map fst (fat_mult c) = fat_keys /\
  map fst (protein_mult c) = protein_keys.
Proof. repeat split; reflexivity. Qed.

(* ---------- in_units: labels (finite domain, exhaustive) ---------- *)

(* the label a conversion of a quantity labelled `from` to bare target `to` receives *)
Definition result_label (monthly : bool) (from to : string) : string :=
  let '(nw, _) := pick_branch from in_units_branches in ctor_label monthly (to ++ nw).
Definition lookup_label (from to : string) : string :=
  let '(_, cv) := pick_branch from in_units_branches in to ++ cv.

(* For every known unit `from` and bare target `to`:
   - the looked-up target is a known unit,
   - the result label has the suffix class of the source label and the base `to`,
   - converting back to the source's base reproduces the source label exactly. *)
Definition label_ok (ks : list string) (from to : string) : bool :=
  let monthly := Nat.eqb (suffix_class from) 1 in
  let r := result_label monthly from to in
  str_mem (lookup_label from to) ks
  && Nat.eqb (suffix_class r) (suffix_class from)
  && String.eqb (base_of r) to
  && String.eqb r (lookup_label from to)
  && String.eqb (result_label monthly r (base_of from)) from.

Definition labels_ok (ks : list string) : bool :=
  forallb (fun from => forallb (label_ok ks from) (bare_keys ks)) ks.

Lemma labels_ok_all :
  labels_ok kcal_keys = true /\ labels_ok fat_keys = true /\ labels_ok protein_keys = true.
Proof. repeat split; vm_compute; reflexivity. Qed.

(* ---------- in_units: shape ---------- *)

Definition vals_len (v : vals) : option (nat * nat * nat) :=
  match v with
  | Scalar _ _ _ => None
  | Monthly k f p => Some (List.length k, List.length f, List.length p)
  end.

Lemma vals_scale_shape a b d v :
  is_monthly (vals_scale a b d v) = is_monthly v /\ vals_len (vals_scale a b d v) = vals_len v.
Proof. destruct v; simpl; split; try reflexivity. now rewrite !map_length. Qed.

Lemma in_units_shape c x tk tf tp y :
  in_units c x tk tf tp = Ok y ->
  is_monthly (fv y) = is_monthly (fv x) /\ vals_len (fv y) = vals_len (fv x) /\
  units y = [ku y; fu y; pu y].
Proof.
  unfold in_units. destruct (pick_branch _ _) as [nw cv].
  destruct (conversion (kcal_mult c) _ _); [|discriminate].
  destruct (conversion (fat_mult c) _ _); [|discriminate].
  destruct (conversion (protein_mult c) _ _); [|discriminate].
  intro H; inversion H; subst; clear H. cbn [fv mk_food units ku fu pu].
  destruct (vals_scale_shape a a0 a1 (fv x)) as [H1 H2]. repeat split; assumption.
Qed.

(* ---------- anchors ---------- *)

Ltac anchor_inv H :=
  unfold conversion in H;
  cbn [lookup kcal_mult fat_mult protein_mult String.eqb Ascii.eqb Bool.eqb] in H;
  match type of H with Ok ?a = Ok ?x => injection H as H; subst x end.

Lemma anchor_kcal_percent c cv : positive_settings c ->
  conversion (kcal_mult c) "billion kcals" "percent people fed" = Ok cv ->
  billion_kcals_needed c * cv == 100.
Proof.
  intros (Hk & Hf & Hp & Hn) H. anchor_inv H.
  unfold conversion_formula. unfold_units. field. qnz.
Qed.

Lemma anchor_kcal_daily c cv : positive_settings c ->
  conversion (kcal_mult c) "billion kcals" "kcals per person per day" = Ok cv ->
  billion_kcals_needed c * cv == kcals_daily c.
Proof.
  intros (Hk & Hf & Hp & Hn) H.
  anchor_inv H.
  unfold conversion_formula. unfold_units. field. qnz.
Qed.

Lemma anchor_kcal_billions c cv : positive_settings c ->
  conversion (kcal_mult c) "billion kcals" "billion people fed" = Ok cv ->
  billion_kcals_needed c * cv == population c / 1000000000.
Proof.
  intros (Hk & Hf & Hp & Hn) H. anchor_inv H.
  unfold conversion_formula. unfold_units. field. qnz.
Qed.

Lemma anchor_fat c c1 c2 c3 : positive_settings c ->
  conversion (fat_mult c) "thousand tons" "percent people fed" = Ok c1 ->
  conversion (fat_mult c) "thousand tons" "grams per person per day" = Ok c2 ->
  conversion (fat_mult c) "thousand tons" "billion people fed" = Ok c3 ->
  thou_tons_fat_needed c * c1 == 100 /\ thou_tons_fat_needed c * c2 == fat_daily c /\
  thou_tons_fat_needed c * c3 == population c / 1000000000.
Proof.
  intros (Hk & Hf & Hp & Hn) H1 H2 H3.
  anchor_inv H1.
  anchor_inv H2.
  anchor_inv H3.
  unfold conversion_formula. unfold_units. repeat split; field; qnz.
Qed.

Lemma anchor_protein c c1 c2 c3 : positive_settings c ->
  conversion (protein_mult c) "thousand tons" "percent people fed" = Ok c1 ->
  conversion (protein_mult c) "thousand tons" "grams per person per day" = Ok c2 ->
  conversion (protein_mult c) "thousand tons" "billion people fed" = Ok c3 ->
  thou_tons_protein_needed c * c1 == 100 /\ thou_tons_protein_needed c * c2 == protein_daily c /\
  thou_tons_protein_needed c * c3 == population c / 1000000000.
Proof.
  intros (Hk & Hf & Hp & Hn) H1 H2 H3.
  anchor_inv H1.
  anchor_inv H2.
  anchor_inv H3.
  unfold conversion_formula. unfold_units. repeat split; field; qnz.
Qed.

(* the anchors are not vacuous: those conversions are defined *)
Lemma anchors_defined c :
  (exists v, conversion (kcal_mult c) "billion kcals" "percent people fed" = Ok v) /\
  (exists v, conversion (kcal_mult c) "billion kcals" "kcals per person per day" = Ok v) /\
  (exists v, conversion (kcal_mult c) "billion kcals" "billion people fed" = Ok v) /\
  (exists v, conversion (fat_mult c) "thousand tons" "percent people fed" = Ok v) /\
  (exists v, conversion (fat_mult c) "thousand tons" "grams per person per day" = Ok v) /\
  (exists v, conversion (fat_mult c) "thousand tons" "billion people fed" = Ok v) /\
  (exists v, conversion (protein_mult c) "thousand tons" "percent people fed" = Ok v) /\
  (exists v, conversion (protein_mult c) "thousand tons" "grams per person per day" = Ok v) /\
  (exists v, conversion (protein_mult c) "thousand tons" "billion people fed" = Ok v).
Proof. repeat split; eexists; reflexivity. Qed.
