(* Lemmas about Model/FoodOps.v (property C11).
   Part 1: token-level meaning of the Python string operations on labels  base ++ suffix tokens
           (adequacy lemmas A1-A6, for every base that does not contain "month").
   Part 2: well-formedness WF and its preservation by every operation; label table; refusal; ratio side;
           predicates; refutations for the clauses the code violates. *)
From Coq Require Import QArith ZArith String Ascii List Bool Arith Lia.
From Allfed Require Import Base.StrUtil Gen.UnitTables Model.Units Model.FoodOps.
Import ListNotations.
Open Scope string_scope.

Inductive tok := Each | Per.
Definition tokstr (t : tok) : string := match t with Each => " each month" | Per => " per month" end.
Fixpoint render_sfx (s : list tok) : string :=
  match s with [] => "" | t :: s' => tokstr t ++ render_sfx s' end.
Definition render (b : string) (s : list tok) : string := b ++ render_sfx s.
Definition clean (b : string) : bool := negb (contains "month" b).
Definition is_each (t : tok) : bool := match t with Each => true | Per => false end.
Fixpoint before_each (s : list tok) : list tok :=
  match s with [] => [] | Each :: _ => [] | Per :: s' => Per :: before_each s' end.
Definition to_per (t : tok) : tok := Per.

Lemma app_assoc_s (a b c : string) : (a ++ b) ++ c = a ++ (b ++ c).
Proof. induction a; simpl; congruence. Qed.
Lemma app_nil_r_s (a : string) : a ++ "" = a.
Proof. induction a; simpl; congruence. Qed.
Lemma length_app_s (a b : string) : String.length (a ++ b) = String.length a + String.length b.
Proof. induction a; simpl; congruence. Qed.
Lemma render_sfx_app s t : render_sfx (s ++ t) = render_sfx s ++ render_sfx t.
Proof. induction s as [|x s IH]; simpl; [reflexivity|]. now rewrite IH, app_assoc_s. Qed.

Lemma prefix_cons_true a p c s : prefix (String a p) (String c s) = true -> a = c /\ prefix p s = true.
Proof. simpl. destruct (ascii_dec a c); [auto|discriminate]. Qed.

Lemma contains_cons p c s : contains p (String c s) = (if prefix p (String c s) then true else contains p s).
Proof. reflexivity. Qed.
Lemma clean_tail c b : clean (String c b) = true -> clean b = true.
Proof.
  unfold clean. rewrite contains_cons. destruct (prefix "month" (String c b)); simpl; [intro H; discriminate H|auto].
Qed.

Lemma prefix_nil s : prefix "" s = true.
Proof. destruct s; reflexivity. Qed.
Lemma prefix_app p b : prefix p (p ++ b) = true.
Proof. induction p as [|a p IH]; simpl; [apply prefix_nil|]. destruct (ascii_dec a a); [exact IH|congruence]. Qed.
Lemma contains_prefix p s : prefix p s = true -> contains p s = true.
Proof. destruct s; simpl; intros ->; reflexivity. Qed.
Lemma contains_skip a p s : contains p s = true -> contains p (a ++ s) = true.
Proof.
  intros H. induction a as [|c a IH]; simpl append; [exact H|].
  rewrite contains_cons, IH. now destruct (prefix _ _).
Qed.
Lemma clean_contra q b : clean (q ++ "month" ++ b) = true -> False.
Proof.
  unfold clean. rewrite (contains_skip q "month" ("month" ++ b)); [discriminate|].
  apply contains_prefix, prefix_app.
Qed.

Ltac nostraddle H Hc b s Q :=
  simpl append in H; apply prefix_cons_true in H as [<- H];
  repeat (destruct b as [|? b];
          [ destruct s as [|[|] s]; cbn in H; discriminate
          | simpl append in H; apply prefix_cons_true in H as [<- H] ]);
  exact (clean_contra Q b Hc).

Lemma ns_each c b s : clean (String c b) = true -> prefix " each month" (String c b ++ render_sfx s) = false.
Proof.
  intros Hc. destruct (prefix _ _) eqn:H; [|reflexivity]. exfalso. nostraddle H Hc b s " each ".
Qed.
Lemma ns_each0 c b s : clean (String c b) = true -> prefix "each month" (String c b ++ render_sfx s) = false.
Proof.
  intros Hc. destruct (prefix _ _) eqn:H; [|reflexivity]. exfalso. nostraddle H Hc b s "each ".
Qed.

(* token-level meaning of the string operations on rendered labels *)
Lemma contains_each_sfx s : contains " each month" (render_sfx s) = existsb is_each s.
Proof.
  induction s as [|[|] s IH]; [reflexivity| |cbn; exact IH].
  change (render_sfx (Each :: s)) with (" each month" ++ render_sfx s). simpl existsb.
  apply contains_prefix, prefix_app.
Qed.
Lemma contains_each0_sfx s : contains "each month" (render_sfx s) = existsb is_each s.
Proof.
  induction s as [|[|] s IH]; [reflexivity| |cbn; exact IH].
  change (render_sfx (Each :: s)) with (" " ++ ("each month" ++ render_sfx s)). simpl existsb.
  apply contains_skip, contains_prefix, prefix_app.
Qed.

Lemma A2 b s : clean b = true -> contains " each month" (render b s) = existsb is_each s.
Proof.
  unfold render. induction b as [|c b IH]; intros Hc; [apply contains_each_sfx|].
  change (String c b ++ render_sfx s) with (String c (b ++ render_sfx s)).
  rewrite contains_cons. change (String c (b ++ render_sfx s)) with (String c b ++ render_sfx s).
  rewrite (ns_each c b s Hc). apply IH. exact (clean_tail c b Hc).
Qed.
Lemma A1 b s : clean b = true -> contains "each month" (render b s) = existsb is_each s.
Proof.
  unfold render. induction b as [|c b IH]; intros Hc; [apply contains_each0_sfx|].
  change (String c b ++ render_sfx s) with (String c (b ++ render_sfx s)).
  rewrite contains_cons. change (String c (b ++ render_sfx s)) with (String c b ++ render_sfx s).
  rewrite (ns_each0 c b s Hc). apply IH. exact (clean_tail c b Hc).
Qed.

Lemma split_first_cons p c s : split_first p (String c s) =
  if prefix p (String c s) then "" else String c (split_first p s).
Proof. reflexivity. Qed.

Lemma split_first_prefix p s : prefix p s = true -> split_first p s = "".
Proof. destruct s; simpl; [destruct p; reflexivity|intros ->; reflexivity]. Qed.
Lemma replace_prefix f p r s : prefix p s = true ->
  replace_all_fuel (S f) p r s = r ++ replace_all_fuel f p r (drop (String.length p) s).
Proof. intros H. cbn [replace_all_fuel]. rewrite H. reflexivity. Qed.

Lemma split_sfx s : split_first " each month" (render_sfx s) = render_sfx (before_each s).
Proof.
  induction s as [|[|] s IH]; [reflexivity| |cbn; rewrite IH; reflexivity].
  change (render_sfx (Each :: s)) with (" each month" ++ render_sfx s). simpl before_each.
  apply split_first_prefix, prefix_app.
Qed.

Lemma A4 b s : clean b = true -> split_first " each month" (render b s) = render b (before_each s).
Proof.
  unfold render. induction b as [|c b IH]; intros Hc; [apply split_sfx|].
  change (String c b ++ render_sfx s) with (String c (b ++ render_sfx s)).
  rewrite split_first_cons. change (String c (b ++ render_sfx s)) with (String c b ++ render_sfx s).
  rewrite (ns_each c b s Hc). simpl. f_equal. apply IH. exact (clean_tail c b Hc).
Qed.

Lemma A6 b s : render b s ++ " each month" = render b (s ++ [Each]).
Proof. unfold render. rewrite render_sfx_app, app_assoc_s. simpl. reflexivity. Qed.

(* replace *)
Lemma replace_cons f p r c s : prefix p (String c s) = false ->
  replace_all_fuel (S f) p r (String c s) = String c (replace_all_fuel f p r s).
Proof. intros H. cbn [replace_all_fuel]. rewrite H. reflexivity. Qed.

Lemma replace_sfx s : forall f, String.length (render_sfx s) < f ->
  replace_all_fuel f " each month" " per month" (render_sfx s) = render_sfx (map to_per s).
Proof.
  induction s as [|[|] s IH]; intros f Hf.
  - destruct f; [inversion Hf|reflexivity].
  - destruct f; [inversion Hf|].
    change (render_sfx (Each :: s)) with (" each month" ++ render_sfx s) in *.
    rewrite length_app_s in Hf. simpl String.length in Hf.
    rewrite replace_prefix by exact (prefix_app " each month" (render_sfx s)).
    change (drop (String.length " each month") (" each month" ++ render_sfx s)) with (render_sfx s).
    rewrite IH by lia. reflexivity.
  - change (render_sfx (Per :: s)) with (" per month" ++ render_sfx s) in *.
    rewrite length_app_s in Hf. simpl String.length in Hf.
    do 10 (destruct f as [|f]; [exfalso; lia|]).
    simpl append.
    do 10 (rewrite replace_cons by reflexivity).
    rewrite IH by lia. reflexivity.
Qed.

Lemma replace_b b s : clean b = true -> forall f, String.length (render b s) < f ->
  replace_all_fuel f " each month" " per month" (render b s) = render b (map to_per s).
Proof.
  unfold render. induction b as [|c b IH]; intros Hc f Hf; [apply replace_sfx; exact Hf|].
  destruct f; [inversion Hf|].
  change (String c b ++ render_sfx s) with (String c (b ++ render_sfx s)).
  rewrite replace_cons.
  - simpl. f_equal. apply IH; [exact (clean_tail c b Hc)|]. simpl in Hf. lia.
  - change (String c (b ++ render_sfx s)) with (String c b ++ render_sfx s). exact (ns_each c b s Hc).
Qed.
Lemma A5 b s : clean b = true -> replace_all " each month" " per month" (render b s) = render b (map to_per s).
Proof. intros Hc. unfold replace_all. apply replace_b; [exact Hc|lia]. Qed.
