(* Lemmas about Model/FoodOps.v (property C11).
   Part 1: token-level meaning of the Python string operations on labels  base ++ suffix tokens
           (adequacy lemmas A1-A6, for every base that does not contain "month").
   Part 2: well-formedness WF and its preservation by every operation; label table; refusal; ratio side;
           predicates; refutations for the clauses the code violates. *)
From Coq Require Import QArith ZArith String Ascii List Bool Arith Lia.
From Allfed Require Import Base.StrUtil Gen.UnitTables Model.Units Model.FoodOps.
From Allfed Require Proofs.Units.
Import ListNotations.
Open Scope nat_scope.
Open Scope string_scope.

Inductive tok := Each | Per.
Definition tokstr (t : tok) : string := match t with Each => " each month" | Per => " per month" end.
Fixpoint render_sfx (s : list tok) : string :=
  match s with [] => "" | t :: s' => tokstr t ++ render_sfx s' end.
Definition render (b : string) (s : list tok) : string := b ++ render_sfx s.
Definition clean (b : string) : bool := negb (contains "month" b).
Definition is_each (t : tok) : bool := match t with Each => true | Per => false end.
Fixpoint before_each (s : list tok) : list tok :=
  match s with [] => [] | Each :: _ => [] | Per :: s' => Per :: before_each s' end.
Definition to_per (t : tok) : tok := Per.

Lemma app_assoc_s (a b c : string) : (a ++ b) ++ c = a ++ (b ++ c).
Proof. induction a; simpl; congruence. Qed.
Lemma app_nil_r_s (a : string) : a ++ "" = a.
Proof. induction a; simpl; congruence. Qed.
Lemma length_app_s (a b : string) : String.length (a ++ b) = String.length a + String.length b.
Proof. induction a; simpl; congruence. Qed.
Lemma render_sfx_app s t : render_sfx (s ++ t) = render_sfx s ++ render_sfx t.
Proof. induction s as [|x s IH]; simpl; [reflexivity|]. now rewrite IH, app_assoc_s. Qed.

Lemma prefix_cons_true a p c s : prefix (String a p) (String c s) = true -> a = c /\ prefix p s = true.
Proof. simpl. destruct (ascii_dec a c); [auto|discriminate]. Qed.

Lemma contains_cons p c s : contains p (String c s) = (if prefix p (String c s) then true else contains p s).
Proof. reflexivity. Qed.
Lemma clean_tail c b : clean (String c b) = true -> clean b = true.
Proof.
  unfold clean. rewrite contains_cons. destruct (prefix "month" (String c b)); simpl; [intro H; discriminate H|auto].
Qed.

Lemma prefix_nil s : prefix "" s = true.
Proof. destruct s; reflexivity. Qed.
Lemma prefix_app p b : prefix p (p ++ b) = true.
Proof. induction p as [|a p IH]; simpl; [apply prefix_nil|]. destruct (ascii_dec a a); [exact IH|congruence]. Qed.
Lemma contains_prefix p s : prefix p s = true -> contains p s = true.
Proof. destruct s; simpl; intros ->; reflexivity. Qed.
Lemma contains_skip a p s : contains p s = true -> contains p (a ++ s) = true.
Proof.
  intros H. induction a as [|c a IH]; simpl append; [exact H|].
  rewrite contains_cons, IH. now destruct (prefix _ _).
Qed.
Lemma clean_contra q b : clean (q ++ "month" ++ b) = true -> False.
Proof.
  unfold clean. rewrite (contains_skip q "month" ("month" ++ b)); [discriminate|].
  apply contains_prefix, prefix_app.
Qed.

Ltac nostraddle H Hc b s Q :=
  simpl append in H; apply prefix_cons_true in H as [<- H];
  repeat (destruct b as [|? b];
          [ destruct s as [|[|] s]; cbn in H; discriminate
          | simpl append in H; apply prefix_cons_true in H as [<- H] ]);
  exact (clean_contra Q b Hc).

Lemma ns_each c b s : clean (String c b) = true -> prefix " each month" (String c b ++ render_sfx s) = false.
Proof.
  intros Hc. destruct (prefix _ _) eqn:H; [|reflexivity]. exfalso. nostraddle H Hc b s " each ".
Qed.
Lemma ns_each0 c b s : clean (String c b) = true -> prefix "each month" (String c b ++ render_sfx s) = false.
Proof.
  intros Hc. destruct (prefix _ _) eqn:H; [|reflexivity]. exfalso. nostraddle H Hc b s "each ".
Qed.

(* token-level meaning of the string operations on rendered labels *)
Lemma contains_each_sfx s : contains " each month" (render_sfx s) = existsb is_each s.
Proof.
  induction s as [|[|] s IH]; [reflexivity| |cbn; exact IH].
  change (render_sfx (Each :: s)) with (" each month" ++ render_sfx s). simpl existsb.
  apply contains_prefix, prefix_app.
Qed.
Lemma contains_each0_sfx s : contains "each month" (render_sfx s) = existsb is_each s.
Proof.
  induction s as [|[|] s IH]; [reflexivity| |cbn; exact IH].
  change (render_sfx (Each :: s)) with (" " ++ ("each month" ++ render_sfx s)). simpl existsb.
  apply contains_skip, contains_prefix, prefix_app.
Qed.

Lemma A2 b s : clean b = true -> contains " each month" (render b s) = existsb is_each s.
Proof.
  unfold render. induction b as [|c b IH]; intros Hc; [apply contains_each_sfx|].
  change (String c b ++ render_sfx s) with (String c (b ++ render_sfx s)).
  rewrite contains_cons. change (String c (b ++ render_sfx s)) with (String c b ++ render_sfx s).
  rewrite (ns_each c b s Hc). apply IH. exact (clean_tail c b Hc).
Qed.
Lemma A1 b s : clean b = true -> contains "each month" (render b s) = existsb is_each s.
Proof.
  unfold render. induction b as [|c b IH]; intros Hc; [apply contains_each0_sfx|].
  change (String c b ++ render_sfx s) with (String c (b ++ render_sfx s)).
  rewrite contains_cons. change (String c (b ++ render_sfx s)) with (String c b ++ render_sfx s).
  rewrite (ns_each0 c b s Hc). apply IH. exact (clean_tail c b Hc).
Qed.

Lemma split_first_cons p c s : split_first p (String c s) =
  if prefix p (String c s) then "" else String c (split_first p s).
Proof. reflexivity. Qed.

Lemma split_first_prefix p s : prefix p s = true -> split_first p s = "".
Proof. destruct s; simpl; [destruct p; reflexivity|intros ->; reflexivity]. Qed.
Lemma replace_prefix f p r s : prefix p s = true ->
  replace_all_fuel (S f) p r s = r ++ replace_all_fuel f p r (drop (String.length p) s).
Proof. intros H. cbn [replace_all_fuel]. rewrite H. reflexivity. Qed.

Lemma split_sfx s : split_first " each month" (render_sfx s) = render_sfx (before_each s).
Proof.
  induction s as [|[|] s IH]; [reflexivity| |cbn; rewrite IH; reflexivity].
  change (render_sfx (Each :: s)) with (" each month" ++ render_sfx s). simpl before_each.
  apply split_first_prefix, prefix_app.
Qed.

Lemma A4 b s : clean b = true -> split_first " each month" (render b s) = render b (before_each s).
Proof.
  unfold render. induction b as [|c b IH]; intros Hc; [apply split_sfx|].
  change (String c b ++ render_sfx s) with (String c (b ++ render_sfx s)).
  rewrite split_first_cons. change (String c (b ++ render_sfx s)) with (String c b ++ render_sfx s).
  rewrite (ns_each c b s Hc). simpl. f_equal. apply IH. exact (clean_tail c b Hc).
Qed.

Lemma A6 b s : render b s ++ " each month" = render b (s ++ [Each]).
Proof. unfold render. rewrite render_sfx_app, app_assoc_s. simpl. reflexivity. Qed.

(* replace *)
Lemma replace_cons f p r c s : prefix p (String c s) = false ->
  replace_all_fuel (S f) p r (String c s) = String c (replace_all_fuel f p r s).
Proof. intros H. cbn [replace_all_fuel]. rewrite H. reflexivity. Qed.

Lemma replace_sfx s : forall f, String.length (render_sfx s) < f ->
  replace_all_fuel f " each month" " per month" (render_sfx s) = render_sfx (map to_per s).
Proof.
  induction s as [|[|] s IH]; intros f Hf.
  - destruct f; [inversion Hf|reflexivity].
  - destruct f; [inversion Hf|].
    change (render_sfx (Each :: s)) with (" each month" ++ render_sfx s) in *.
    rewrite length_app_s in Hf. simpl String.length in Hf.
    rewrite replace_prefix by exact (prefix_app " each month" (render_sfx s)).
    change (drop (String.length " each month") (" each month" ++ render_sfx s)) with (render_sfx s).
    rewrite IH by lia. reflexivity.
  - change (render_sfx (Per :: s)) with (" per month" ++ render_sfx s) in *.
    rewrite length_app_s in Hf. simpl String.length in Hf.
    do 10 (destruct f as [|f]; [exfalso; lia|]).
    simpl append.
    do 10 (rewrite replace_cons by reflexivity).
    rewrite IH by lia. reflexivity.
Qed.

Lemma replace_b b s : clean b = true -> forall f, String.length (render b s) < f ->
  replace_all_fuel f " each month" " per month" (render b s) = render b (map to_per s).
Proof.
  unfold render. induction b as [|c b IH]; intros Hc f Hf; [apply replace_sfx; exact Hf|].
  destruct f; [inversion Hf|].
  change (String c b ++ render_sfx s) with (String c (b ++ render_sfx s)).
  rewrite replace_cons.
  - simpl. f_equal. apply IH; [exact (clean_tail c b Hc)|]. simpl in Hf. lia.
  - change (String c (b ++ render_sfx s)) with (String c b ++ render_sfx s). exact (ns_each c b s Hc).
Qed.
Lemma A5 b s : clean b = true -> replace_all " each month" " per month" (render b s) = render b (map to_per s).
Proof. intros Hc. unfold replace_all. apply replace_b; [exact Hc|lia]. Qed.

(* ================================================================== Part 2 *)
Open Scope Q_scope.
Open Scope string_scope.

Lemma existsb_no_each s : ~ In Each s -> existsb is_each s = false.
Proof.
  induction s as [|[|] s IH]; simpl; intros H; [reflexivity| |].
  - exfalso; apply H; now left.
  - apply IH; intro; apply H; now right.
Qed.
Lemma existsb_each_end pre : existsb is_each (pre ++ [Each]) = true.
Proof. rewrite existsb_app. simpl. now rewrite orb_true_r. Qed.
Lemma before_each_end pre : ~ In Each pre -> before_each (pre ++ [Each]) = pre.
Proof.
  induction pre as [|[|] s IH]; simpl; intros H; [reflexivity| |].
  - exfalso; apply H; now left.
  - f_equal; apply IH; intro; apply H; now right.
Qed.
Lemma to_per_no_each s : ~ In Each (map to_per s).
Proof. induction s; simpl; [tauto|]. intros [H|H]; [discriminate|auto]. Qed.

(* a label of a monthly series: clean base, exactly one " each month", at the end *)
Definition lab_mon (l : string) : Prop :=
  exists b pre, clean b = true /\ ~ In Each pre /\ l = render b (pre ++ [Each]).
(* a label of a single value: clean base, any number of " per month", no " each month" *)
Definition lab_sc (l : string) : Prop :=
  exists b s, clean b = true /\ ~ In Each s /\ l = render b s.
Definition lab_wf (m : bool) (l : string) : Prop := if m then lab_mon l else lab_sc l.
Definition lab_any (l : string) : Prop := lab_mon l \/ lab_sc l.

Definition vals_ok (v : vals) : Prop :=
  match v with
  | Scalar _ _ _ => True
  | Monthly k f p => List.length k = List.length f /\ List.length f = List.length p /\ List.length k <> 0%nat
  end.

Record WF (x : food) : Prop := {
  wf_units : units x = [ku x; fu x; pu x];
  wf_vals : vals_ok (fv x);
  wf_k : lab_wf (mon x) (ku x);
  wf_f : lab_wf (mon x) (fu x);
  wf_p : lab_wf (mon x) (pu x) }.

Lemma lab_mon_has0 l : lab_mon l -> contains EACH_NOSPACE l = true.
Proof. intros (b & pre & Hc & _ & ->). unfold EACH_NOSPACE. rewrite A1 by exact Hc. apply existsb_each_end. Qed.
Lemma lab_mon_has l : lab_mon l -> contains EACH l = true.
Proof. intros (b & pre & Hc & _ & ->). unfold EACH. rewrite A2 by exact Hc. apply existsb_each_end. Qed.
Lemma lab_sc_has0 l : lab_sc l -> contains EACH_NOSPACE l = false.
Proof. intros (b & s & Hc & Hn & ->). unfold EACH_NOSPACE. rewrite A1 by exact Hc. now apply existsb_no_each. Qed.
Lemma lab_sc_has l : lab_sc l -> contains EACH l = false.
Proof. intros (b & s & Hc & Hn & ->). unfold EACH. rewrite A2 by exact Hc. now apply existsb_no_each. Qed.
Lemma lab_sc_app_each l : lab_sc l -> lab_mon (l ++ EACH).
Proof. intros (b & s & Hc & Hn & ->). exists b, s. repeat split; auto. unfold EACH. apply A6. Qed.
Lemma lab_mon_split l : lab_mon l -> lab_sc (split_first EACH l).
Proof.
  intros (b & pre & Hc & Hn & ->). exists b, pre. repeat split; auto.
  unfold EACH. rewrite A4 by exact Hc. now rewrite before_each_end.
Qed.
Lemma lab_mon_replace l : lab_mon l -> lab_sc (replace_all EACH PER l).
Proof.
  intros (b & pre & Hc & Hn & ->). exists b, (map to_per (pre ++ [Each])). repeat split; auto.
  - apply to_per_no_each.
  - unfold EACH, PER. now apply A5.
Qed.
Lemma lab_mon_not_sc l : lab_mon l -> lab_sc l -> False.
Proof. intros H1 H2. apply lab_mon_has0 in H1. apply lab_sc_has0 in H2. congruence. Qed.

Lemma ctor_label_any l : lab_any l -> lab_mon (ctor_label true l).
Proof.
  unfold ctor_label. intros [H|H]; simpl.
  - change "each month" with EACH_NOSPACE. rewrite (lab_mon_has0 l H). exact H.
  - change "each month" with EACH_NOSPACE. rewrite (lab_sc_has0 l H). simpl. now apply lab_sc_app_each.
Qed.
Lemma ctor_label_mon l : lab_mon l -> ctor_label true l = l.
Proof. intros H. unfold ctor_label. change "each month" with EACH_NOSPACE. now rewrite (lab_mon_has0 l H). Qed.

Lemma clean_lab_sc b : clean b = true -> lab_sc b.
Proof. intros H. exists b, []. repeat split; auto. unfold render; simpl. now rewrite app_nil_r_s. Qed.
Lemma clean_lab_sc_per b : clean b = true -> lab_sc (b ++ PER).
Proof. intros H. exists b, [Per]. repeat split; auto. simpl; intros [E|[]]; discriminate. Qed.
Lemma clean_lab_mon b : clean b = true -> lab_mon (b ++ EACH).
Proof. intros H. exists b, []. repeat split; auto. Qed.

(* ------------------------------------------------------------------ shapes *)
Lemma vals_zip_shape g a b v : vals_zip g a b = Ok v -> is_monthly v = is_monthly a || is_monthly b.
Proof.
  destruct a, b; simpl; intros H; try (inversion H; reflexivity).
  destruct (bc g k k0), (bc g f f0), (bc g p p0); inversion H; reflexivity.
Qed.
Lemma vals_map_shape g a : is_monthly (vals_map g a) = is_monthly a.
Proof. destruct a; reflexivity. Qed.

Lemma validate_ok x : validate x = Ok tt -> vals_ok (fv x).
Proof.
  unfold validate, vals_ok. destruct (fv x); [trivial|]. unfold guard.
  destruct (contains EACH (ku x) && contains EACH (fu x) && contains EACH (pu x)); [|discriminate].
  destruct (Nat.eqb (List.length k) (List.length f)) eqn:E1; [|discriminate].
  destruct (Nat.eqb (List.length f) (List.length p)) eqn:E2; [|discriminate]. simpl.
  destruct (Nat.eqb (List.length k) 0) eqn:E3; [discriminate|]. intros _.
  apply Nat.eqb_eq in E1. apply Nat.eqb_eq in E2. apply Nat.eqb_neq in E3. auto.
Qed.

(* every operation builds its result through ctor_arr: the result is well formed as soon as the labels handed
   to the constructor fit the shape of the numbers *)
Lemma ctor_arr_wf v k f p y : ctor_arr v k f p = Ok y ->
  (is_monthly v = true -> lab_any k /\ lab_any f /\ lab_any p) ->
  (is_monthly v = false -> lab_sc k /\ lab_sc f /\ lab_sc p) -> WF y.
Proof.
  unfold ctor_arr, bind. destruct (validate (mk_food v k f p)) as [[]|] eqn:V; [|discriminate].
  intros H; inversion H; subst y; clear H. intros Hm Hs.
  pose proof (validate_ok _ V) as Hv.
  constructor; try reflexivity; try exact Hv; unfold mon; simpl fv; simpl ku; simpl fu; simpl pu;
  destruct (is_monthly v) eqn:M; simpl;
  try (destruct (Hm eq_refl) as (A & B & C)); try (destruct (Hs eq_refl) as (A & B & C));
  try (apply ctor_label_any; assumption); unfold ctor_label; simpl; assumption.
Qed.

Lemma ctor_arr_labels_scalar v k f p y : ctor_arr v k f p = Ok y -> is_monthly v = false ->
  ku y = k /\ fu y = f /\ pu y = p /\ units y = [k; f; p] /\ fv y = v.
Proof.
  unfold ctor_arr, bind. destruct (validate _) as [[]|]; [|discriminate]. intros H; inversion H; subst y.
  intros M. unfold mk_food, ctor_label. rewrite M. simpl. auto.
Qed.
Lemma ctor_arr_labels_mon v k f p y : ctor_arr v k f p = Ok y -> lab_mon k -> lab_mon f -> lab_mon p ->
  ku y = k /\ fu y = f /\ pu y = p /\ fv y = v.
Proof.
  unfold ctor_arr, bind. destruct (validate _) as [[]|]; [|discriminate]. intros H; inversion H; subst y.
  intros A B C. unfold mk_food. simpl. destruct (is_monthly v).
  - now rewrite !ctor_label_mon.
  - unfold ctor_label; simpl; auto.
Qed.

Lemma wf_any x : WF x -> lab_any (ku x) /\ lab_any (fu x) /\ lab_any (pu x).
Proof. intros [_ _ A B C]. unfold lab_wf, lab_any in *. destruct (mon x); auto. Qed.
Lemma wf_sc x : WF x -> mon x = false -> lab_sc (ku x) /\ lab_sc (fu x) /\ lab_sc (pu x).
Proof. intros [_ _ A B C] M. rewrite M in *. auto. Qed.
Lemma wf_mon x : WF x -> mon x = true -> lab_mon (ku x) /\ lab_mon (fu x) /\ lab_mon (pu x).
Proof. intros [_ _ A B C] M. rewrite M in *. auto. Qed.

Lemma with_labels_wf x v y : with_labels_of x v = Ok y -> WF x -> (is_monthly v = false -> mon x = false) -> WF y.
Proof.
  unfold with_labels_of. intros H W S. eapply ctor_arr_wf; [exact H| |].
  - intros _. now apply wf_any.
  - intros M. apply wf_sc; auto.
Qed.

(* the labels of the result are those of x when the shapes agree *)
Lemma with_labels_same x v y : with_labels_of x v = Ok y -> WF x -> is_monthly v = mon x ->
  ku y = ku x /\ fu y = fu x /\ pu y = pu x /\ fv y = v.
Proof.
  unfold with_labels_of. intros H W S. destruct (mon x) eqn:M.
  - destruct (wf_mon x W M) as (A & B & C). now apply ctor_arr_labels_mon.
  - destruct (ctor_arr_labels_scalar _ _ _ _ _ H S) as (A & B & C & _ & D). auto.
Qed.

Ltac inv_guard H :=
  unfold guard, bind in H;
  repeat match type of H with
         | (if ?b then _ else _) = _ => let E := fresh "G" in destruct b eqn:E; [|discriminate H]
         | (match ?e with Ok _ => _ | Rejected _ => _ end) = _ =>
             let E := fresh "B" in destruct e eqn:E; [|discriminate H]
         end.

(* ------------------------------------------------------------------ WF is preserved: one lemma per group *)
Lemma zip_labels_x_wf g x y z : WF x ->
  bind (vals_zip g (fv x) (fv y)) (with_labels_of x) = Ok z -> WF z.
Proof.
  intros W H. inv_guard H. eapply with_labels_wf; eauto.
  intros M. apply vals_zip_shape in B. rewrite B in M. unfold mon. now apply orb_false_elim in M.
Qed.

Lemma add_wf x y z : WF x -> add x y = Ok z -> WF z.
Proof. unfold add. intros W H. inv_guard H. eapply zip_labels_x_wf; eauto. unfold bind. now rewrite B. Qed.
Lemma sub_wf x y z : WF x -> sub x y = Ok z -> WF z.
Proof. unfold sub. intros W H. inv_guard H. eapply zip_labels_x_wf; eauto. unfold bind. now rewrite B. Qed.
Lemma min_wf x y z : WF x -> min_elementwise x y = Ok z -> WF z.
Proof. unfold min_elementwise. intros W H. inv_guard H. eapply zip_labels_x_wf; eauto. unfold bind. now rewrite B. Qed.

Lemma map_wf g x z : WF x -> with_labels_of x (vals_map g (fv x)) = Ok z -> WF z.
Proof. intros W H. eapply with_labels_wf; eauto. now rewrite vals_map_shape. Qed.

Lemma mul_food_wf x y z : WF x -> WF y -> mul x (MFood y) = Ok z -> WF z.
Proof.
  unfold mul. intros Wx Wy H.
  destruct (mon x) eqn:Mx; simpl negb in H; cbv iota in H.
  - inv_guard H. destruct (mon y) eqn:My.
    + inv_guard H. destruct (is_a_ratio y); (eapply with_labels_wf; [exact H| assumption |]);
      intros M; apply vals_zip_shape in B1; rewrite B1 in M; fold (mon x) in M; rewrite Mx in M; discriminate.
    + inv_guard H. eapply with_labels_wf; [exact H|assumption|].
      intros M; apply vals_zip_shape in B0; rewrite B0 in M; fold (mon x) in M; rewrite Mx in M; discriminate.
  - destruct (mon y) eqn:My.
    + inv_guard H. eapply with_labels_wf; [exact H|assumption|].
      intros M; apply vals_zip_shape in B; rewrite B in M; fold (mon y) in M; rewrite My, orb_true_r in M; discriminate.
    + inv_guard H. destruct (is_a_ratio y); (eapply with_labels_wf; [exact H|assumption|]); intros _; assumption.
Qed.

Lemma vals_arr_mon g a l v : vals_arr g a l = Ok v -> is_monthly v = true.
Proof. unfold vals_arr. intros H. apply vals_zip_shape in H. rewrite H. simpl. apply orb_true_r. Qed.

Lemma mul_wf x a z : WF x -> match a with MFood y => WF y | _ => True end -> mul x a = Ok z -> WF z.
Proof.
  intros W Wa H. destruct a as [y|q|l].
  - exact (mul_food_wf x y z W Wa H).
  - unfold mul in H. destruct (mon x) eqn:Mx; simpl negb in H; cbv iota in H.
    + inv_guard H. eapply map_wf; eauto.
    + eapply map_wf; eauto.
  - unfold mul in H. destruct (mon x) eqn:Mx; simpl negb in H; cbv iota in H.
    + inv_guard H. eapply with_labels_wf; eauto. intros M. apply vals_arr_mon in B0. congruence.
    + inv_guard H. pose proof (vals_arr_mon _ _ _ _ B) as Mv.
      destruct (wf_sc x W Mx) as (A1' & A2' & A3').
      eapply ctor_arr_wf; [exact H| |intros M; congruence].
      intros _. repeat split; left; now apply lab_sc_app_each.
Qed.

Lemma ratio_mon : lab_mon "ratio each month".
Proof. exists "ratio", []. repeat split; auto. Qed.
Lemma ratio_sc : lab_sc "ratio".
Proof. apply clean_lab_sc. reflexivity. Qed.

Lemma div_food_wf x y z : div_food x y = Ok z -> WF z.
Proof.
  unfold div_food. intros H. inv_guard H. destruct (mon x) eqn:Mx.
  - inv_guard H. apply vals_zip_shape in B1. fold (mon x) in B1. rewrite Mx in B1. simpl in B1.
    eapply ctor_arr_wf; [exact H| |intros M; congruence].
    intros _. repeat split; left; exact ratio_mon.
  - inv_guard H. apply vals_zip_shape in B. fold (mon x) (mon y) in B. rewrite Mx in B.
    apply negb_true_iff in G0. rewrite G0 in B. simpl in B.
    eapply ctor_arr_wf; [exact H|intros M; congruence|]. intros _. repeat split; exact ratio_sc.
Qed.

Lemma sure_list_mon x u : sure_list x = Ok u -> mon x = true.
Proof. unfold sure_list, guard. destruct (mon x); [auto|discriminate]. Qed.

Lemma slice_wf x a b z : WF x -> getitem_slice x a b = Ok z -> WF z.
Proof.
  unfold getitem_slice. intros W H. inv_guard H. apply sure_list_mon in B.
  destruct (fv x) eqn:V; [discriminate|]. eapply with_labels_wf; eauto; simpl; discriminate.
Qed.

Lemma set_l2e_wf x0 z : units x0 = [ku x0; fu x0; pu x0] ->
  lab_mon (ku x0) -> lab_mon (fu x0) -> lab_mon (pu x0) -> mon x0 = false -> set_l2e x0 = Ok z -> WF z.
Proof.
  intros U A B C M H. unfold set_l2e, set_from, get_l2e in H. inv_guard H. destruct (has_each3 x0); [|discriminate B0]. inversion B0; subst a; clear B0.
  inversion H; subst z; clear H. unfold set_units.
  constructor; simpl; try reflexivity; unfold mon in *; simpl.
  - destruct (fv x0); simpl in *; [trivial|discriminate].
  - rewrite M. simpl. now apply lab_mon_replace.
  - rewrite M. simpl. now apply lab_mon_replace.
  - rewrite M. simpl. now apply lab_mon_replace.
Qed.
Lemma set_l2t_wf x0 z : units x0 = [ku x0; fu x0; pu x0] ->
  lab_mon (ku x0) -> lab_mon (fu x0) -> lab_mon (pu x0) -> mon x0 = false -> set_l2t x0 = Ok z -> WF z.
Proof.
  intros U A B C M H. unfold set_l2t, set_from, get_l2t in H. inv_guard H. destruct (has_each3 x0); [|discriminate B0]. inversion B0; subst a; clear B0.
  inversion H; subst z; clear H. unfold set_units.
  constructor; simpl; try reflexivity; unfold mon in *; simpl.
  - destruct (fv x0); simpl in *; [trivial|discriminate].
  - rewrite M. simpl. now apply lab_mon_split.
  - rewrite M. simpl. now apply lab_mon_split.
  - rewrite M. simpl. now apply lab_mon_split.
Qed.

Lemma pick3_scalar k f p i v : pick3 k f p i = Ok v -> is_monthly v = false.
Proof. unfold pick3. destruct (py_index k i), (py_index f i), (py_index p i); intros H; inversion H; reflexivity. Qed.

(* a scalar built with the labels of a monthly WF food, then relabelled *)
Lemma scalar_then x v y0 : WF x -> mon x = true -> is_monthly v = false -> with_labels_of x v = Ok y0 ->
  units y0 = [ku y0; fu y0; pu y0] /\ lab_mon (ku y0) /\ lab_mon (fu y0) /\ lab_mon (pu y0) /\ mon y0 = false.
Proof.
  intros W M S H. unfold with_labels_of in H.
  destruct (ctor_arr_labels_scalar _ _ _ _ _ H S) as (A & B & C & U & V).
  destruct (wf_mon x W M) as (A' & B' & C'). unfold mon. rewrite A, B, C, U, V. auto.
Qed.

Lemma month_wf x i z : WF x -> get_month x i = Ok z -> WF z.
Proof.
  unfold get_month. intros W H. inv_guard H. apply sure_list_mon in B.
  destruct (fv x) eqn:V; [discriminate|]. inv_guard H.
  match goal with P : pick3 _ _ _ _ = Ok ?v, L : with_labels_of x ?v = Ok ?y0 |- _ =>
    pose proof (pick3_scalar _ _ _ _ _ P) as S;
    destruct (scalar_then x v y0 W B S L) as (U & A1' & A2' & A3' & M) end.
  eapply set_l2e_wf; eauto.
Qed.

Lemma getitem_int_wf x i z : WF x -> getitem_int x i = Ok z -> WF z.
Proof.
  unfold getitem_int. intros W H. inv_guard H. apply sure_list_mon in B.
  destruct (fv x) eqn:V; [discriminate|]. inv_guard H.
  match goal with P : pick3 _ _ _ _ = Ok ?v, L : with_labels_of x ?v = Ok ?y0 |- _ =>
    pose proof (pick3_scalar _ _ _ _ _ P) as S;
    destruct (scalar_then x v y0 W B S L) as (U & A1' & A2' & A3' & M) end.
  eapply set_l2e_wf; eauto.
Qed.

Lemma sum_wf x z : WF x -> get_nutrients_sum x = Ok z -> WF z.
Proof.
  unfold get_nutrients_sum. intros W H. inv_guard H. apply sure_list_mon in B.
  destruct (fv x) eqn:V; [discriminate|]. inv_guard H.
  match goal with L : with_labels_of x ?v = Ok ?y0 |- _ =>
    destruct (scalar_then x v y0 W B eq_refl L) as (U & A1' & A2' & A3' & M) end.
  eapply set_l2t_wf; eauto.
Qed.

Lemma reduce_wf g x z : WF x -> reduce_months g x = Ok z -> WF z.
Proof.
  unfold reduce_months. intros W H. inv_guard H. apply sure_list_mon in B.
  destruct (fv x) eqn:V; [discriminate|]. destruct k; [discriminate|]. destruct f; [discriminate|].
  destruct p; [discriminate|]. inv_guard H.
  match goal with L : with_labels_of x ?v = Ok ?y0 |- _ =>
    destruct (scalar_then x v y0 W B eq_refl L) as (U & A1' & A2' & A3' & M) end.
  eapply set_l2t_wf; eauto.
Qed.

Lemma runsum_wf x z : WF x -> get_running_total x = Ok z -> WF z.
Proof.
  unfold get_running_total. intros W H. inv_guard H. destruct (fv x) eqn:V; [discriminate|].
  eapply with_labels_wf; eauto; simpl; discriminate.
Qed.

Lemma round_wf x d z : WF x -> get_rounded x d = Ok z -> WF z.
Proof. unfold get_rounded. intros W H. inv_guard H. eapply map_wf; eauto. Qed.

Lemma clip_wf x z : WF x -> negative_values_to_zero x = Ok z -> WF z.
Proof.
  unfold negative_values_to_zero. intros W H. destruct (mon x).
  - inv_guard H. eapply map_wf; eauto.
  - eapply map_wf; eauto.
Qed.

Lemma shift_wf x n z : WF x -> shift x n = Ok z -> WF z.
Proof.
  unfold shift. intros W H. destruct (fv x) eqn:V; [discriminate|].
  eapply with_labels_wf; eauto; simpl; discriminate.
Qed.

(* conversions *)
Lemma vals_scale_ok a b d v : vals_ok v -> vals_ok (vals_scale a b d v).
Proof. destruct v; simpl; [auto|]. now rewrite !map_length. Qed.
Lemma vals_scale_mon a b d v : is_monthly (vals_scale a b d v) = is_monthly v.
Proof. destruct v; reflexivity. Qed.

Lemma in_units_wf c x tk tf tp z : WF x -> clean tk = true -> clean tf = true -> clean tp = true ->
  in_units c x tk tf tp = Ok z -> WF z.
Proof.
  intros W Ck Cf Cp H. unfold in_units in H.
  rewrite (wf_units x W) in H. simpl nth in H.
  unfold in_units_branches, pick_branch, in_units_else in H.
  assert (E : forall nw, (mon x = true -> nw = EACH) -> (mon x = false -> nw = PER \/ nw = "") ->
              WF (mk_food (vals_scale 1 1 1 (fv x)) (tk ++ nw) (tf ++ nw) (tp ++ nw)) ->
              forall a b d, WF (mk_food (vals_scale a b d (fv x)) (tk ++ nw) (tf ++ nw) (tp ++ nw))).
  { intros nw _ _ [U V A B C] a b d. constructor; simpl in *; auto.
    - apply vals_scale_ok. destruct (fv x); simpl in *; auto. now rewrite !map_length in V.
    - unfold mon in *; simpl in *. now rewrite vals_scale_mon in *.
    - unfold mon in *; simpl in *. now rewrite vals_scale_mon in *.
    - unfold mon in *; simpl in *. now rewrite vals_scale_mon in *. }
  assert (F : forall nw, (mon x = true -> nw = EACH) -> (mon x = false -> nw = PER \/ nw = "") ->
              forall a b d, WF (mk_food (vals_scale a b d (fv x)) (tk ++ nw) (tf ++ nw) (tp ++ nw))).
  { intros nw Hm Hs a b d. constructor; simpl; try reflexivity.
    - apply vals_scale_ok. exact (wf_vals x W).
    - unfold mon; simpl. rewrite vals_scale_mon. fold (mon x). destruct (mon x) eqn:M; simpl.
      + rewrite (Hm eq_refl). apply ctor_label_any. left. now apply clean_lab_mon.
      + unfold ctor_label; simpl. destruct (Hs eq_refl) as [->| ->];
        [now apply clean_lab_sc_per|rewrite app_nil_r_s; now apply clean_lab_sc].
    - unfold mon; simpl. rewrite vals_scale_mon. fold (mon x). destruct (mon x) eqn:M; simpl.
      + rewrite (Hm eq_refl). apply ctor_label_any. left. now apply clean_lab_mon.
      + unfold ctor_label; simpl. destruct (Hs eq_refl) as [->| ->];
        [now apply clean_lab_sc_per|rewrite app_nil_r_s; now apply clean_lab_sc].
    - unfold mon; simpl. rewrite vals_scale_mon. fold (mon x). destruct (mon x) eqn:M; simpl.
      + rewrite (Hm eq_refl). apply ctor_label_any. left. now apply clean_lab_mon.
      + unfold ctor_label; simpl. destruct (Hs eq_refl) as [->| ->];
        [now apply clean_lab_sc_per|rewrite app_nil_r_s; now apply clean_lab_sc]. }
  clear E.
  change " each month" with EACH in H. change " per month" with PER in H.
  destruct (mon x) eqn:M.
  - destruct (wf_mon x W M) as (A & _ & _). rewrite (lab_mon_has _ A) in H.
    destruct (conversion (kcal_mult c) _ _); [|discriminate].
    destruct (conversion (fat_mult c) _ _); [|discriminate].
    destruct (conversion (protein_mult c) _ _); [|discriminate].
    inversion H; subst z. apply F; [auto|discriminate].
  - destruct (wf_sc x W M) as (A & _ & _). rewrite (lab_sc_has _ A) in H.
    destruct (contains PER (ku x)).
    + destruct (conversion (kcal_mult c) _ _); [|discriminate].
      destruct (conversion (fat_mult c) _ _); [|discriminate].
      destruct (conversion (protein_mult c) _ _); [|discriminate].
      inversion H; subst z. apply F; [discriminate|auto].
    + destruct (conversion (kcal_mult c) _ _); [|discriminate].
      destruct (conversion (fat_mult c) _ _); [|discriminate].
      destruct (conversion (protein_mult c) _ _); [|discriminate].
      inversion H; subst z. apply F; [discriminate|auto].
Qed.

Definition targets_clean (t : string * (string * string * string)) : bool :=
  let '(_, (a, b, d)) := t in clean a && clean b && clean d.
Lemma helper_targets_clean : forallb targets_clean helper_targets = true.
Proof. vm_compute. reflexivity. Qed.

Lemma helper_wf c name x z : WF x -> helper c name x = Ok z -> WF z.
Proof.
  unfold helper. intros W H. destruct (lookup name helper_targets) as [[[a b] d]|] eqn:L; [|discriminate].
  apply lookup_In in L. pose proof helper_targets_clean as HC. rewrite forallb_forall in HC.
  specialize (HC _ L). unfold targets_clean in HC. apply andb_prop in HC as [HC C3]. apply andb_prop in HC as [C1 C2].
  exact (in_units_wf c x a b d z W C1 C2 C3 H).
Qed.

(* ------------------------------------------------------------------ closure *)
Definition op_closed (o : op) : Prop :=
  match o with
  | OSetUnits _ _ _ | OSetL2T | OSetL2E | OSetE2L => False   (* declared label mutators *)
  | OMul (MFood y) | ORMul y | OMinElemR y => WF y
  | OInUnits tk tf tp => clean tk = true /\ clean tf = true /\ clean tp = true
  | _ => True
  end.

Lemma run_op_wf c x o z : WF x -> op_closed o -> run_op c x o = Ok z -> WF z.
Proof.
  intros W Hc H. destruct o; cbn [run_op] in H; cbn [op_closed] in Hc; try contradiction;
  unfold get_first_month, get_min_all_months, get_max_all_months, abs_values, neg, div_num in H.
  - eapply add_wf; eauto.
  - eapply sub_wf; eauto.
  - eapply map_wf; eauto.
  - eapply map_wf; eauto.
  - eapply mul_wf; eauto; destruct a; auto.
  - exact (mul_food_wf y x z Hc W H).
  - eapply div_food_wf; eauto.
  - eapply map_wf; eauto.
  - eapply getitem_int_wf; eauto.
  - eapply slice_wf; eauto.
  - eapply month_wf; eauto.
  - eapply month_wf; eauto.
  - eapply sum_wf; eauto.
  - eapply runsum_wf; eauto.
  - eapply reduce_wf; eauto.
  - eapply reduce_wf; eauto.
  - eapply min_wf; eauto.
  - eapply min_wf; eauto.
  - eapply round_wf; eauto.
  - eapply clip_wf; eauto.
  - eapply shift_wf; eauto.
  - destruct Hc as (A & B & C). exact (in_units_wf c x tk tf tp z W A B C H).
  - eapply helper_wf; eauto.
Qed.

Lemma run_ops_wf c os : forall x z, WF x -> Forall op_closed os -> run_ops c x os = Ok z -> WF z.
Proof.
  induction os as [|o os IH]; intros x z W F H; simpl in H.
  - inversion H; subst; exact W.
  - inversion F; subst. unfold bind in H. destruct (run_op c x o) eqn:R; [|discriminate].
    apply (IH a z); [eapply run_op_wf; eauto|assumption|assumption].
Qed.

(* ------------------------------------------------------------------ the combined list agrees with the labels *)
Definition units_agree (z : food) : Prop := units z = [ku z; fu z; pu z].

Lemma ctor_arr_units v k f p y : ctor_arr v k f p = Ok y -> units_agree y.
Proof. unfold ctor_arr, bind. destruct (validate _); [|discriminate]. intros H; inversion H; reflexivity. Qed.
Lemma with_labels_units x v y : with_labels_of x v = Ok y -> units_agree y.
Proof. apply ctor_arr_units. Qed.
Lemma set_from_units x g y : set_from x g = Ok y -> units_agree y.
Proof.
  unfold set_from, bind. destruct (g x) as [l|]; [|discriminate].
  destruct l as [|a [|b [|d [|]]]]; try discriminate. intros H; inversion H; reflexivity.
Qed.
Lemma in_units_units c x tk tf tp y : in_units c x tk tf tp = Ok y -> units_agree y.
Proof. intros H. exact (proj2 (proj2 (Allfed.Proofs.Units.in_units_shape c x tk tf tp y H))). Qed.
Lemma helper_units c n x y : helper c n x = Ok y -> units_agree y.
Proof. unfold helper. destruct (lookup n helper_targets) as [[[a b] d]|]; [apply in_units_units|discriminate]. Qed.

Ltac units_tac H :=
  first
  [ exact (ctor_arr_units _ _ _ _ _ H)
  | exact (with_labels_units _ _ _ H)
  | exact (set_from_units _ _ _ H)
  | exact (in_units_units _ _ _ _ _ _ H)
  | exact (helper_units _ _ _ _ H)
  | discriminate H
  | match type of H with
    | (if ?b then _ else _) = _ => destruct b; units_tac H
    | (match ?e with _ => _ end) = _ => destruct e; units_tac H
    end ].

Lemma run_op_units c x o z : run_op c x o = Ok z -> units_agree z.
Proof.
  intros H. destruct o; cbn [run_op] in H;
  unfold add, sub, neg, abs_values, mul, div_food, div_num, getitem_int, getitem_slice, get_month, get_first_month,
    get_month, get_nutrients_sum, get_running_total, get_min_all_months, get_max_all_months, reduce_months,
    min_elementwise, get_rounded, negative_values_to_zero, shift, set_l2t, set_l2e, set_e2l, bind, guard in H;
  try (units_tac H).
  inversion H; reflexivity.
Qed.

(* ------------------------------------------------------------------ refusal on differing units *)
Lemma refuse_add x y : same_units x y = false -> add x y = Rejected AssertRejected.
Proof. unfold add, guard. now intros ->. Qed.
Lemma refuse_sub x y : same_units x y = false -> sub x y = Rejected AssertRejected.
Proof. unfold sub, guard. now intros ->. Qed.
Lemma refuse_div x y : same_units x y = false -> div_food x y = Rejected AssertRejected.
Proof. unfold div_food, guard. now intros ->. Qed.
Lemma refuse_min x y : same_units x y = false -> min_elementwise x y = Rejected AssertRejected.
Proof. unfold min_elementwise, guard. now intros ->. Qed.
Lemma refuse_mul x y : is_a_ratio x = false -> is_a_ratio y = false -> exists r, mul x (MFood y) = Rejected r.
Proof.
  intros Rx Ry. unfold mul, guard, bind. rewrite Rx, Ry. simpl.
  destruct (mon x); simpl.
  - destruct (validate x); [|eauto]. destruct (mon y); [|eauto]. destruct (validate y); eauto.
  - destruct (mon y); eauto.
Qed.
Definition pred_checks_units (p : pred) : bool :=
  match p with PEq | PNe | PAllGt | PAllLt | PAnyGt | PAnyLt | PAllGe | PAnyGe => true | _ => false end.
Lemma refuse_pred incf incp p x y : pred_checks_units p = true -> same_units x y = false ->
  eval_pred incf incp p x y = Rejected AssertRejected.
Proof. destruct p; simpl; try discriminate; intros _ E; unfold guard; rewrite E; reflexivity. Qed.

(* ------------------------------------------------------------------ ratio on either side *)
Lemma strs_eq_refl l : strs_eq l l = true.
Proof. induction l; simpl; [reflexivity|]. now rewrite String.eqb_refl. Qed.

Lemma mul_ratio_labels r q z : WF r -> WF q -> is_a_ratio r = true -> is_a_ratio q = false ->
  (mul r (MFood q) = Ok z \/ mul q (MFood r) = Ok z) ->
  ku z = ku q /\ fu z = fu q /\ pu z = pu q /\ units z = units q.
Proof.
  intros Wr Wq Rr Rq H.
  assert (G : forall v, is_monthly v = mon q -> with_labels_of q v = Ok z ->
              ku z = ku q /\ fu z = fu q /\ pu z = pu q /\ units z = units q).
  { intros v S L. destruct (with_labels_same q v z L Wq S) as (A & B & C & _).
    pose proof (with_labels_units _ _ _ L) as U. unfold units_agree in U.
    rewrite U, A, B, C, (wf_units q Wq). auto. }
  destruct H as [H|H]; unfold mul in H; rewrite ?Rr, ?Rq in H;
  destruct (mon r) eqn:Mr; destruct (mon q) eqn:Mq; simpl negb in H; cbv beta iota zeta in H;
  inv_guard H; cbv beta iota zeta in H; try discriminate H;
  try (match goal with E : false = true |- _ => discriminate E end);
  (match goal with Z : vals_zip _ _ _ = Ok ?v |- _ =>
     apply vals_zip_shape in Z; fold (mon r) (mon q) in Z; rewrite Mr, Mq in Z;
     eapply G; [|exact H]; rewrite Z; reflexivity end).
Qed.

(* ------------------------------------------------------------------ predicates: single value = one-month series *)
Lemma contains_self_app l p : contains p (l ++ p) = true.
Proof.
  apply contains_skip. apply contains_prefix. rewrite <- (app_nil_r_s p) at 2. apply prefix_app.
Qed.

Section Predicates.
  Variables (k f p k' f' p' : Q) (lk lf lp : string).
  Definition one_scalar (a b d : Q) : food := raw (Scalar a b d) lk lf lp.
  Definition one_month (a b d : Q) : food := raw (Monthly [a] [b] [d]) (lk ++ EACH) (lf ++ EACH) (lp ++ EACH).

  Lemma validate_one_month a b d : validate (one_month a b d) = Ok tt.
  Proof.
    unfold validate, one_month, raw, guard. simpl fv. cbn [ku fu pu]. unfold EACH.
    now rewrite !contains_self_app.
  Qed.

  Lemma pred_scalar_series incf incp pr :
    eval_pred incf incp pr (one_scalar k f p) (one_scalar k' f' p')
    = eval_pred incf incp pr (one_month k f p) (one_month k' f' p').
  Proof.
    assert (U1 : same_units (one_scalar k f p) (one_scalar k' f' p') = true) by apply strs_eq_refl.
    assert (U2 : same_units (one_month k f p) (one_month k' f' p') = true) by apply strs_eq_refl.
    destruct pr; unfold eval_pred; rewrite ?U1, ?U2; unfold guard, bind;
    change (mon (one_scalar k f p)) with false; change (mon (one_month k f p)) with true;
    change (mon (one_scalar k' f' p')) with false; change (mon (one_month k' f' p')) with true;
    cbv iota; rewrite ?validate_one_month; rewrite ?U1, ?U2; reflexivity.
  Qed.
End Predicates.

(* ------------------------------------------------------------------ witnesses *)
Definition wit_series : food :=
  raw (Monthly [1; 2] [3; 4] [5; 6]) "billion kcals each month" "thousand tons each month" "thousand tons each month".

Lemma wit_series_wf : WF wit_series.
Proof.
  constructor; simpl; try reflexivity; try (repeat split; discriminate);
  [exists "billion kcals", []|exists "thousand tons", []|exists "thousand tons", []]; repeat split; auto.
Qed.

Lemma lab_mon_roundtrip l : lab_mon l -> split_first EACH l ++ EACH = l.
Proof.
  intros (b & pre & Hc & Hn & ->). unfold EACH. rewrite A4 by exact Hc. rewrite before_each_end by exact Hn.
  apply A6.
Qed.

(* the constructor: int placeholders included *)
Lemma ctor_wf k f p lk lf lp z : ctor k f p lk lf lp = Ok z ->
  match k with
  | NList _ => lab_any lk /\ lab_any lf /\ lab_any lp
  | _ => lab_sc lk /\ lab_sc lf /\ lab_sc lp
  end -> WF z.
Proof.
  intros H L. destruct k as [zk|qk|kl].
  - simpl in H. destruct (num_scalar f), (num_scalar p); try discriminate. inversion H; subst z.
    destruct L as (A & B & C). constructor; simpl; auto.
  - simpl in H. destruct (num_scalar f), (num_scalar p); try discriminate. inversion H; subst z.
    destruct L as (A & B & C). constructor; simpl; auto.
  - destruct L as (A & B & C). unfold ctor in H.
    assert (Sf : forall n, lab_mon (snd (ctor_side n f lf))).
    { intros n. destruct f; simpl; now apply ctor_label_any. }
    assert (Sp : forall n, lab_mon (snd (ctor_side n p lp))).
    { intros n. destruct p; simpl; now apply ctor_label_any. }
    specialize (Sf (List.length kl)). specialize (Sp (List.length kl)).
    destruct (ctor_side (List.length kl) f lf) as [fa lf']. destruct (ctor_side (List.length kl) p lp) as [pa lp'].
    simpl in Sf, Sp. unfold guard in H.
    destruct (contains EACH (ctor_label true lk) && contains EACH lf' && contains EACH lp'); [|discriminate].
    destruct fa as [fl|]; [|discriminate].
    destruct (Nat.eqb (List.length kl) (List.length fl)) eqn:E1; simpl in H; [|discriminate].
    destruct pa as [pl|]; [|discriminate].
    destruct (Nat.eqb (List.length fl) (List.length pl)) eqn:E2; [|discriminate].
    destruct (Nat.eqb (List.length kl) 0) eqn:E3; simpl in H; [discriminate|].
    inversion H; subst z. apply Nat.eqb_eq in E1. apply Nat.eqb_eq in E2. apply Nat.eqb_neq in E3.
    constructor; simpl; auto. now apply ctor_label_any.
Qed.
