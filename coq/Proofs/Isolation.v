(* C14 - lemmas about Model/Isolation.v.  No hypothesis on the cell comparison `ceqb` is
   needed anywhere: `upd`, `mem`, `last_writer` use it with the same argument order. *)
From Coq Require Import List Bool Arith Lia Permutation.
From Allfed Require Import Model.Isolation.
Import ListNotations.

Section IsolationProofs.
  Variable cell : Type.
  Variable ceqb : cell -> cell -> bool.
  Variable V : Type.
  Variable R : Type.

  Notation prog := (prog cell V R).
  Notation event := (event cell V).
  Notation store := (store cell V).
  Notation exec := (exec cell ceqb V R).
  Notation result_of := (result_of cell ceqb V R).
  Notation final_of := (final_of cell ceqb V R).
  Notation trace_of := (trace_of cell ceqb V R).
  Notation upd := (upd cell ceqb V).
  Notation mem := (mem cell ceqb).
  Notation disc_from := (disc_from cell ceqb V).
  Notation disciplined := (disciplined cell ceqb V).
  Notation results_of := (results_of cell ceqb V R).
  Notation hist_log := (hist_log cell ceqb V R).
  Notation last_writer := (last_writer cell ceqb).
  Notation hdisc_from := (hdisc_from cell ceqb V).
  Notation hdisciplined := (hdisciplined cell ceqb V).

  (* ---------------------------------------------------------------- unfolding exec *)
  Lemma result_rd c k G : result_of (Rd c k) G = result_of (k (G c)) G.
  Proof. unfold Isolation.result_of; simpl. destruct (exec (k (G c)) G) as [[r G'] t]; reflexivity. Qed.
  Lemma trace_rd c k G : trace_of (Rd c k) G = ERd c (G c) :: trace_of (k (G c)) G.
  Proof. unfold Isolation.trace_of; simpl. destruct (exec (k (G c)) G) as [[r G'] t]; reflexivity. Qed.
  Lemma final_rd c k G : final_of (Rd c k) G = final_of (k (G c)) G.
  Proof. unfold Isolation.final_of; simpl. destruct (exec (k (G c)) G) as [[r G'] t]; reflexivity. Qed.
  Lemma result_wr c v k G : result_of (Wr c v k) G = result_of k (upd G c v).
  Proof. unfold Isolation.result_of; simpl. destruct (exec k (upd G c v)) as [[r G'] t]; reflexivity. Qed.
  Lemma trace_wr c v k G : trace_of (Wr c v k) G = EWr c v :: trace_of k (upd G c v).
  Proof. unfold Isolation.trace_of; simpl. destruct (exec k (upd G c v)) as [[r G'] t]; reflexivity. Qed.
  Lemma final_wr c v k G : final_of (Wr c v k) G = final_of k (upd G c v).
  Proof. unfold Isolation.final_of; simpl. destruct (exec k (upd G c v)) as [[r G'] t]; reflexivity. Qed.

  (* ---------------------------------------------------------------- noninterference *)
  Definition agree_on (W : list cell) (G1 G2 : store) : Prop :=
    forall c, mem c W = true -> G1 c = G2 c.

  Lemma agree_upd W G1 G2 c v : agree_on W G1 G2 -> agree_on (c :: W) (upd G1 c v) (upd G2 c v).
  Proof.
    intros H c' Hm. unfold Isolation.upd. simpl in Hm.
    destruct (ceqb c c'); [reflexivity|]. apply H. exact Hm.
  Qed.

  (* the run observed from G1 with a disciplined trace behaves identically from any G2 that
     agrees with G1 on the cells the run has already written (none, at the start) *)
  Lemma exec_agree : forall (p : prog) W G1 G2, agree_on W G1 G2 ->
    disc_from W (trace_of p G1) = true ->
    result_of p G1 = result_of p G2 /\ trace_of p G1 = trace_of p G2.
  Proof.
    induction p as [r|c k IH|c v k IH]; intros W G1 G2 HA HD.
    - split; reflexivity.
    - rewrite trace_rd in HD. simpl in HD. apply andb_true_iff in HD. destruct HD as [Hm HD].
      pose proof (HA c Hm) as E.
      rewrite !result_rd, !trace_rd. rewrite <- E.
      destruct (IH (G1 c) W G1 G2 HA HD) as [E1 E2]. rewrite E1, E2. split; reflexivity.
    - rewrite trace_wr in HD. simpl in HD.
      rewrite !result_wr, !trace_wr.
      destruct (IH (c :: W) (upd G1 c v) (upd G2 c v) (agree_upd W G1 G2 c v HA) HD) as [E1 E2].
      rewrite E1, E2. split; reflexivity.
  Qed.

  Lemma agree_nil G1 G2 : agree_on [] G1 G2.
  Proof. intros c H; discriminate H. Qed.

  Lemma noninterference : forall (p : prog) G1, disciplined (trace_of p G1) = true ->
    forall G2, result_of p G1 = result_of p G2 /\ trace_of p G1 = trace_of p G2.
  Proof. intros p G1 H G2. exact (exec_agree p [] G1 G2 (agree_nil G1 G2) H). Qed.

  (* a run is disciplined when ONE observation of it is (then every observation is) *)
  Definition disciplined_run (p : prog) : Prop := exists G, disciplined (trace_of p G) = true.

  Lemma disciplined_run_any : forall p, disciplined_run p ->
    forall G1 G2, result_of p G1 = result_of p G2 /\ trace_of p G1 = trace_of p G2.
  Proof.
    intros p [G H] G1 G2.
    destruct (noninterference p G H G1) as [A1 A2], (noninterference p G H G2) as [B1 B2].
    split; congruence.
  Qed.

  Lemma disciplined_run_all : forall p, disciplined_run p -> forall G, disciplined (trace_of p G) = true.
  Proof.
    intros p [G H] G'. destruct (noninterference p G H G') as [_ E]. rewrite <- E. exact H.
  Qed.

  (* ---------------------------------------------------------------- histories *)
  Lemma results_cons p h G : results_of (p :: h) G = result_of p G :: results_of h (final_of p G).
  Proof.
    unfold Isolation.results_of, Isolation.result_of, Isolation.final_of. simpl.
    destruct (exec p G) as [[r G'] t]. simpl.
    destruct (exec_hist cell ceqb V R h G') as [rs G'']. reflexivity.
  Qed.

  Lemma results_length h : forall G, List.length (results_of h G) = List.length h.
  Proof. induction h as [|p h IH]; intro G; [reflexivity|]. rewrite results_cons. simpl. now rewrite IH. Qed.

  (* only the run of interest has to be disciplined: the other steps of the history are arbitrary *)
  Lemma history_nth : forall h G i p, nth_error h i = Some p -> disciplined_run p ->
    forall G0, nth_error (results_of h G) i = Some (result_of p G0).
  Proof.
    induction h as [|q h IH]; intros G i p Hn Hd G0.
    - destruct i; discriminate Hn.
    - rewrite results_cons. destruct i as [|i]; simpl in *.
      + injection Hn as ->. f_equal. apply (disciplined_run_any p Hd).
      + exact (IH _ i p Hn Hd G0).
  Qed.

  Lemma history_all : forall h, Forall disciplined_run h ->
    forall G G0, results_of h G = map (fun p => result_of p G0) h.
  Proof.
    induction h as [|p h IH]; intros HF G G0; [reflexivity|].
    inversion HF as [|? ? Hp Hh]; subst. rewrite results_cons. simpl. f_equal.
    - apply (disciplined_run_any p Hp).
    - apply IH; assumption.
  Qed.

  Lemma history_permutation : forall h1 h2, Permutation h1 h2 -> Forall disciplined_run h1 ->
    forall G1 G2, Permutation (results_of h1 G1) (results_of h2 G2).
  Proof.
    intros h1 h2 HP HF G1 G2.
    assert (HF2 : Forall disciplined_run h2).
    { rewrite Forall_forall in *. intros x Hx. apply HF. apply Permutation_sym in HP. exact (Permutation_in x HP Hx). }
    rewrite (history_all h1 HF G1 G1), (history_all h2 HF2 G2 G1). apply Permutation_map. exact HP.
  Qed.

  (* ---------------------------------------------------------------- whole-log discipline *)
  (* cells written by run i so far are exactly those whose last writer in L is i *)
  Definition owner_ok (L : list (cell * nat)) (W : list cell) (i : nat) : Prop :=
    forall c, mem c W = match last_writer c L with Some r => Nat.eqb r i | None => false end.
  Definition tags_below (L : list (cell * nat)) (n : nat) : Prop :=
    forall c r, last_writer c L = Some r -> r < n.

  Fixpoint wl (i : nat) (t : list event) (L : list (cell * nat)) : list (cell * nat) :=
    match t with
    | [] => L
    | ERd _ _ :: t' => wl i t' L
    | EWr c _ :: t' => wl i t' ((c, i) :: L)
    end.

  Lemma tags_below_wl : forall t i L, tags_below L (S i) -> tags_below (wl i t L) (S i).
  Proof.
    induction t as [|[c v|c v] t IH]; intros i L H; simpl; auto.
    apply IH. intros c' r. simpl. destruct (ceqb c c').
    - intro E; injection E as <-. lia.
    - apply H.
  Qed.

  Lemma hdisc_run : forall t i L W rest, owner_ok L W i ->
    hdisc_from L (map (pair i) t ++ rest) = true ->
    disc_from W t = true /\ hdisc_from (wl i t L) rest = true.
  Proof.
    induction t as [|[c v|c v] t IH]; intros i L W rest HO H; simpl in *.
    - split; [reflexivity|exact H].
    - apply andb_true_iff in H. destruct H as [H1 H2].
      rewrite (HO c). destruct (IH i L W rest HO H2) as [A B].
      rewrite H1, A. split; [reflexivity|exact B].
    - apply (IH i ((c, i) :: L) (c :: W) rest); [|exact H].
      intro c'. simpl. destruct (ceqb c c'); simpl.
      + now rewrite Nat.eqb_refl.
      + apply HO.
  Qed.

  Lemma owner_ok_fresh L i : tags_below L i -> owner_ok L [] i.
  Proof.
    intros H c. simpl. destruct (last_writer c L) as [r|] eqn:E; [|reflexivity].
    apply H in E. symmetry. apply Nat.eqb_neq. lia.
  Qed.

  Lemma log_discipline_from : forall h i G L, tags_below L i ->
    hdisc_from L (hist_log i h G) = true -> Forall disciplined_run h.
  Proof.
    induction h as [|p h IH]; intros i G L HT H; [constructor|].
    simpl in H.
    destruct (hdisc_run (trace_of p G) i L [] _ (owner_ok_fresh L i HT) H) as [A B].
    constructor.
    - exists G. exact A.
    - apply (IH (S i) (final_of p G) (wl i (trace_of p G) L)); [|exact B].
      apply tags_below_wl. intros c r E. apply HT in E. lia.
  Qed.

  Lemma log_discipline : forall h G, hdisciplined (hist_log 0 h G) = true -> Forall disciplined_run h.
  Proof.
    intros h G H. apply (log_discipline_from h 0 G []); [|exact H].
    intros c r E; discriminate E.
  Qed.

  (* ---------------------------------------------------------------- traces of exec are coherent *)
  Variable veqb : V -> V -> bool.
  Hypothesis veqb_refl : forall v, veqb v v = true.
  Notation coh_from := (coh_from cell ceqb V veqb).
  Notation last_value := (last_value cell ceqb V).

  Definition store_ok (St : list (cell * V)) (G : store) : Prop :=
    forall c v, last_value c St = Some v -> G c = v.

  Lemma exec_coherent_from : forall (p : prog) St G, store_ok St G -> coh_from St (trace_of p G) = true.
  Proof.
    induction p as [r|c k IH|c v k IH]; intros St G HS.
    - reflexivity.
    - rewrite trace_rd. simpl. rewrite (IH (G c) St G HS), andb_true_r.
      destruct (last_value c St) as [v'|] eqn:E; [|reflexivity].
      rewrite (HS c v' E). apply veqb_refl.
    - rewrite trace_wr. simpl. apply IH.
      intros c' v'. simpl. unfold Isolation.upd. destruct (ceqb c c').
      + intro E; injection E as <-; reflexivity.
      + apply HS.
  Qed.

  Lemma exec_coherent : forall (p : prog) G, coherent cell ceqb V veqb (trace_of p G) = true.
  Proof. intros p G. apply exec_coherent_from. intros c v E; discriminate E. Qed.
End IsolationProofs.
