(* Lemmas about Model/Herd.v (C07: feeding; C06: month step). *)
From Coq Require Import ZArith QArith Qabs Qround List Bool Lqa Lia Permutation.
From Allfed Require Import Base.QRound Model.Herd.
Import ListNotations.
Open Scope Q_scope.

(* ------------------------------------------------------------------ boolean tests *)

Lemma Qleb_true : forall x y, Qle_bool x y = true -> x <= y.
Proof. intros x y H. apply Qle_bool_iff. exact H. Qed.
Lemma Qleb_false : forall x y, Qle_bool x y = false -> y < x.
Proof.
  intros x y H. destruct (Qlt_le_dec y x) as [L|L]; [exact L|].
  apply Qle_bool_iff in L. congruence.
Qed.
Lemma Qltb_true : forall x y, Qltb x y = true -> x < y.
Proof. intros x y H. unfold Qltb in H. apply negb_true_iff in H. apply Qleb_false. exact H. Qed.
Lemma Qltb_false : forall x y, Qltb x y = false -> y <= x.
Proof. intros x y H. unfold Qltb in H. apply negb_false_iff in H. apply Qleb_true. exact H. Qed.
Lemma Qeqb_true : forall x y, Qeq_bool x y = true -> x == y.
Proof. intros x y H. apply Qeq_bool_iff. exact H. Qed.
Lemma Qeqb_false : forall x y, Qeq_bool x y = false -> ~ x == y.
Proof. intros x y H E. apply Qeq_bool_iff in E. congruence. Qed.

Ltac btest :=
  match goal with
  | |- context [Qltb ?a ?b] =>
      let E := fresh "E" in destruct (Qltb a b) eqn:E; [apply Qltb_true in E | apply Qltb_false in E]
  | |- context [Qle_bool ?a ?b] =>
      let E := fresh "E" in destruct (Qle_bool a b) eqn:E; [apply Qleb_true in E | apply Qleb_false in E]
  | |- context [Qeq_bool ?a ?b] =>
      let E := fresh "E" in destruct (Qeq_bool a b) eqn:E; [apply Qeqb_true in E | apply Qeqb_false in E]
  end.

Lemma pymin_cases : forall x y, (y < x /\ pymin x y = y) \/ (x <= y /\ pymin x y = x).
Proof. intros x y. unfold pymin. btest; [left|right]; split; auto. Qed.
Lemma pymax_cases : forall x y, (x < y /\ pymax x y = y) \/ (y <= x /\ pymax x y = x).
Proof. intros x y. unfold pymax. btest; [left|right]; split; auto. Qed.

Lemma pymin_comp_l : forall a a' c, a == a' -> pymin a' c == pymin a c.
Proof.
  intros a a' c H. unfold pymin.
  destruct (Qltb c a') eqn:C1; destruct (Qltb c a) eqn:C2; try reflexivity;
    [apply Qltb_true in C1; apply Qltb_false in C2|apply Qltb_false in C1; apply Qltb_true in C2|]; lra.
Qed.

Lemma div_mul_cancel : forall a b, ~ b == 0 -> (a / b) * b == a.
Proof. intros a b H. field. exact H. Qed.

Lemma div_nonneg : forall a b, 0 <= a -> 0 < b -> 0 <= a / b.
Proof. intros a b Ha Hb. apply Qle_shift_div_l; [exact Hb|]. lra. Qed.

(* ------------------------------------------------------------------ C07: one herd *)

Definition feeder_ok (s : feeder) : Prop := 0 <= fd_cur s /\ 0 <= fd_req s /\ 0 < fd_eg s /\ 0 < fd_ef s.

Definition feed_spec (s : feeder) (g f : Q) (o : fedout) : Prop :=
  (0 <= fo_grass o /\ fo_grass o <= g) /\
  (0 <= fo_feed o /\ fo_feed o <= f) /\
  (0 <= fo_bal o /\ fo_bal o <= fd_req s) /\
  fd_req s - fo_bal o == (g - fo_grass o) * fd_eg s + (f - fo_feed o) * fd_ef s /\
  (fd_rum s = false -> fo_grass o = g) /\
  (0 <= fo_fed o /\ fo_fed o <= fd_cur s) /\
  (fo_bal o == 0 -> fo_fed o = fd_cur s) /\
  (~ fo_bal o == 0 ->
     fo_fed o == pymin (Qround (((fd_req s - fo_bal o) / fd_req s) * fd_cur s)) (fd_cur s) /\
     Qabs (fo_fed o - fd_cur s * ((fd_req s - fo_bal o) / fd_req s)) <= 1 # 2) /\
  (~ fo_bal o == 0 -> fo_feed o == 0 /\ (fd_rum s = true -> fo_grass o == 0)).

Lemma partial_fed : forall p bal cur, 0 <= p -> p < bal -> 0 <= cur ->
  let fed := pymin (Qround ((p / bal) * cur)) cur in
  0 <= fed /\ fed <= cur /\ Qabs (fed - cur * (p / bal)) <= 1 # 2.
Proof.
  intros p bal cur Hp Hlt Hc fed.
  assert (Hb : 0 < bal) by lra.
  assert (Hr0 : 0 <= p / bal) by (apply div_nonneg; assumption).
  assert (Hr1 : p / bal <= 1) by (apply Qle_shift_div_r; [exact Hb|lra]).
  set (r := p / bal) in *.
  assert (Hx0 : 0 <= r * cur) by nra.
  assert (Hx1 : r * cur <= cur) by nra.
  destruct (Qround_bounds (r * cur)) as [B1 B2].
  pose proof (Qround_nonneg (r * cur) Hx0) as B0.
  subst fed. destruct (pymin_cases (Qround (r * cur)) cur) as [[L E]|[L E]]; rewrite E.
  - split; [lra|]. split; [lra|]. apply Qabs_Qle_condition. split; nra.
  - split; [lra|]. split; [lra|]. apply Qabs_Qle_condition. split; nra.
Qed.

Lemma feed_the_species_spec : forall s g f, feeder_ok s -> 0 <= g -> 0 <= f ->
  feed_spec s g f (feed_the_species s g f).
Proof.
  intros s g f (Hc & Hr & Heg & Hef) Hg Hf.
  unfold feed_spec, feed_the_species.
  destruct (Qeq_bool (fd_req s) 0) eqn:E0.
  { apply Qeqb_true in E0. cbn [fo_grass fo_feed fo_bal fo_fed].
    repeat split; try lra; auto; intro H; exfalso; apply H; exact E0. }
  apply Qeqb_false in E0.
  assert (Hr' : 0 < fd_req s).
  { destruct (Qlt_le_dec 0 (fd_req s)) as [L|L]; [exact L|]. exfalso. apply E0. lra. }
  assert (Hneg : 0 <= (if fd_rum s then g * fd_eg s else 0)).
  { destruct (fd_rum s); [nra|lra]. }
  assert (Hnef : 0 <= f * fd_ef s) by nra.
  set (neg := if fd_rum s then g * fd_eg s else 0) in *.
  set (nef := f * fd_ef s) in *.
  destruct (Qle_bool (fd_req s) neg) eqn:E1.
  { (* requirement met by grass *)
    apply Qleb_true in E1. cbn [fo_grass fo_feed fo_bal fo_fed].
    assert (Hrum : fd_rum s = true).
    { destruct (fd_rum s) eqn:R; [reflexivity|]. subst neg. lra. }
    subst neg. rewrite Hrum in *.
    assert (Hd0 : 0 <= fd_req s / fd_eg s) by (apply div_nonneg; lra).
    assert (Hd1 : fd_req s / fd_eg s <= g) by (apply Qle_shift_div_r; lra).
    assert (Hd2 : (fd_req s / fd_eg s) * fd_eg s == fd_req s) by (apply div_mul_cancel; lra).
    repeat split; try lra; try discriminate; auto; try nra;
      try (intro H; exfalso; apply H; reflexivity). }
  apply Qleb_false in E1.
  assert (Hreq1 : 0 < (if Qltb 0 neg then fd_req s - neg else fd_req s)) by (btest; lra).
  assert (Hg1 : (if Qltb 0 neg then 0 else g) * fd_eg s + 0 * 0 ==
                g * fd_eg s - neg).
  { btest.
    - destruct (fd_rum s); subst neg; [ring|lra].
    - assert (neg == 0) by lra. destruct (fd_rum s); subst neg; [nra|lra]. }
  assert (Hg1b : 0 <= (if Qltb 0 neg then 0 else g) /\ (if Qltb 0 neg then 0 else g) <= g) by (btest; lra).
  assert (Hg1r : fd_rum s = false -> (if Qltb 0 neg then 0 else g) = g).
  { intro R. subst neg. rewrite R. btest; [lra|reflexivity]. }
  assert (Hg1z : fd_rum s = true -> (if Qltb 0 neg then 0 else g) == 0).
  { intro R. subst neg. rewrite R in *. btest; [reflexivity|]. nra. }
  set (req1 := if Qltb 0 neg then fd_req s - neg else fd_req s) in *.
  set (g1 := if Qltb 0 neg then 0 else g) in *.
  assert (Hreq1e : req1 == fd_req s - neg).
  { subst req1. btest; [reflexivity|]. lra. }
  destruct (Qle_bool req1 nef) eqn:E2.
  { (* requirement met with feed *)
    apply Qleb_true in E2. cbn [fo_grass fo_feed fo_bal fo_fed].
    assert (Hd0 : 0 <= req1 / fd_ef s) by (apply div_nonneg; lra).
    assert (Hd1 : req1 / fd_ef s <= f) by (apply Qle_shift_div_r; [lra|subst nef; lra]).
    assert (Hd2 : (req1 / fd_ef s) * fd_ef s == req1) by (apply div_mul_cancel; lra).
    repeat split; try lra; auto; try nra;
      try (intro H; exfalso; apply H; reflexivity). }
  (* partially fed *)
  apply Qleb_false in E2. cbn [fo_grass fo_feed fo_bal fo_fed].
  assert (Hp0 : 0 <= neg + nef) by lra.
  assert (Hp1 : neg + nef < fd_req s) by lra.
  destruct (partial_fed (neg + nef) (fd_req s) (fd_cur s) Hp0 Hp1 Hc) as (F0 & F1 & F2).
  assert (Hdel : fd_req s - (fd_req s - (neg + nef)) == neg + nef) by ring.
  repeat split; try lra; auto.
  - subst nef. lra.
  - apply pymin_comp_l. apply Qround_comp. rewrite Hdel. reflexivity.
  - rewrite Hdel. exact F2.
Qed.

(* ------------------------------------------------------------------ C07: the priority list *)

Lemma feed_chain_app : forall l1 l2 g f,
  feed_chain (l1 ++ l2) g f =
  let '(os1, g1, f1) := feed_chain l1 g f in
  let '(os2, g2, f2) := feed_chain l2 g1 f1 in (os1 ++ os2, g2, f2).
Proof.
  induction l1 as [|s l1 IH]; intros l2 g f; cbn [feed_chain app].
  - destruct (feed_chain l2 g f) as [[os2 g2] f2]. reflexivity.
  - rewrite IH.
    destruct (feed_chain l1 (fo_grass (feed_the_species s g f)) (fo_feed (feed_the_species s g f))) as [[os1 g1] f1].
    destruct (feed_chain l2 g1 f1) as [[os2 g2] f2]. reflexivity.
Qed.

Lemma used_chain_app : forall l1 l2 g f,
  used_chain (l1 ++ l2) g f =
  let '(_, g1, f1) := feed_chain l1 g f in used_chain l1 g f ++ used_chain l2 g1 f1.
Proof.
  induction l1 as [|s l1 IH]; intros l2 g f; cbn [feed_chain used_chain app].
  - reflexivity.
  - rewrite IH.
    destruct (feed_chain l1 (fo_grass (feed_the_species s g f)) (fo_feed (feed_the_species s g f))) as [[os1 g1] f1].
    reflexivity.
Qed.

Fixpoint sumq (l : list Q) : Q := match l with [] => 0 | x :: l' => x + sumq l' end.

Lemma chain_conservation : forall l g f, Forall feeder_ok l -> 0 <= g -> 0 <= f ->
  let '(_, g', f') := feed_chain l g f in
  (0 <= g' /\ 0 <= f') /\
  sumq (map fst (used_chain l g f)) + g' == g /\
  sumq (map snd (used_chain l g f)) + f' == f /\
  Forall (fun u => 0 <= fst u /\ 0 <= snd u) (used_chain l g f).
Proof.
  induction l as [|s l IH]; intros g f Hok Hg Hf; cbn [feed_chain used_chain map sumq].
  - repeat split; try lra. constructor.
  - inversion Hok as [|? ? Hs Hl]; subst.
    destruct (feed_the_species_spec s g f Hs Hg Hf) as ((G0 & G1) & (F0 & F1) & _).
    specialize (IH (fo_grass (feed_the_species s g f)) (fo_feed (feed_the_species s g f)) Hl G0 F0).
    destruct (feed_chain l (fo_grass (feed_the_species s g f)) (fo_feed (feed_the_species s g f))) as [[os g'] f'].
    destruct IH as ((A & B) & C & D & E).
    cbn [fst snd]. repeat split; try lra.
    constructor; [cbn [fst snd]; lra|exact E].
Qed.

(* every herd of the list is fed according to feed_spec with the supplies the earlier herds left *)
Fixpoint chain_all (P : feeder -> Q -> Q -> fedout -> Prop) (l : list feeder) (g f : Q) : Prop :=
  match l with
  | [] => True
  | s :: l' => let o := feed_the_species s g f in P s g f o /\ chain_all P l' (fo_grass o) (fo_feed o)
  end.

Lemma chain_each : forall l g f, Forall feeder_ok l -> 0 <= g -> 0 <= f ->
  chain_all (fun s g f o => 0 <= g /\ 0 <= f /\ feed_spec s g f o) l g f.
Proof.
  induction l as [|s l IH]; intros g f Hok Hg Hf; cbn [chain_all]; [exact I|].
  inversion Hok as [|? ? Hs Hl]; subst.
  pose proof (feed_the_species_spec s g f Hs Hg Hf) as S.
  split.
  - split; [exact Hg|split; [exact Hf|exact S]].
  - destruct S as ((G0 & G1) & (F0 & F1) & _). apply IH; assumption.
Qed.

Lemma chain_all_nth : forall P l g f, chain_all P l g f ->
  forall l1 s l2, l = l1 ++ s :: l2 ->
  let '(_, g1, f1) := feed_chain l1 g f in P s g1 f1 (feed_the_species s g1 f1).
Proof.
  intros P l. induction l as [|x l IH]; intros g f H l1 s l2 E.
  - destruct l1; discriminate.
  - destruct l1 as [|y l1]; cbn [app] in E; inversion E; subst.
    + cbn [feed_chain]. apply H.
    + cbn [feed_chain]. destruct H as [_ H].
      specialize (IH _ _ H l1 s l2 eq_refl).
      destruct (feed_chain l1 (fo_grass (feed_the_species y g f)) (fo_feed (feed_the_species y g f))) as [[os g1] f1].
      exact IH.
Qed.

Lemma no_feed_no_use : forall l g f, Forall feeder_ok l -> 0 <= g -> 0 <= f -> f <= 0 ->
  Forall (fun u => snd u == 0) (used_chain l g f).
Proof.
  induction l as [|s l IH]; intros g f Hok Hg Hf Hz; cbn [used_chain]; constructor.
  - inversion Hok as [|? ? Hs Hl]; subst.
    destruct (feed_the_species_spec s g f Hs Hg Hf) as (_ & (F0 & F1) & _). cbn [snd]. lra.
  - inversion Hok as [|? ? Hs Hl]; subst.
    destruct (feed_the_species_spec s g f Hs Hg Hf) as ((G0 & G1) & (F0 & F1) & _).
    apply IH; try assumption. lra.
Qed.

Lemma no_grass_no_use : forall l g f, Forall feeder_ok l -> 0 <= g -> 0 <= f -> g <= 0 ->
  Forall (fun u => fst u == 0) (used_chain l g f).
Proof.
  induction l as [|s l IH]; intros g f Hok Hg Hf Hz; cbn [used_chain]; constructor.
  - inversion Hok as [|? ? Hs Hl]; subst.
    destruct (feed_the_species_spec s g f Hs Hg Hf) as ((G0 & G1) & _). cbn [fst]. lra.
  - inversion Hok as [|? ? Hs Hl]; subst.
    destruct (feed_the_species_spec s g f Hs Hg Hf) as ((G0 & G1) & (F0 & F1) & _).
    apply IH; try assumption. lra.
Qed.

Lemma Forall_and_l : forall (A : Type) (P R : A -> Prop) l, Forall P l -> Forall R l -> Forall (fun x => P x /\ R x) l.
Proof. intros A P R l HP. induction HP; intro HR; inversion HR; subst; constructor; auto. Qed.

(* strict priority: a herd that is left short exhausts the feed (and, if it is a ruminant, the grass),
   so nothing is served to any later herd from that resource *)
Lemma chain_priority : forall l1 s l2 g f, Forall feeder_ok (l1 ++ s :: l2) -> 0 <= g -> 0 <= f ->
  let '(_, g1, f1) := feed_chain l1 g f in
  let o := feed_the_species s g1 f1 in
  ~ fo_bal o == 0 ->
  Forall (fun u => snd u == 0 /\ (fd_rum s = true -> fst u == 0)) (used_chain l2 (fo_grass o) (fo_feed o)).
Proof.
  intros l1 s l2 g f Hok Hg Hf.
  pose proof (chain_all_nth _ _ _ _ (chain_each _ g f Hok Hg Hf) l1 s l2 eq_refl) as H.
  destruct (feed_chain l1 g f) as [[os1 g1] f1].
  destruct H as (Hg1 & Hf1 & S).
  intros o Hb. subst o.
  destruct S as ((G0 & G1) & (F0 & F1) & _ & _ & _ & _ & _ & _ & Hshort).
  destruct (Hshort Hb) as (Fz & Gz).
  apply Forall_app in Hok. destruct Hok as [_ Hok]. inversion Hok as [|? ? Hs Hl2]; subst.
  pose proof (no_feed_no_use l2 _ _ Hl2 G0 F0 ltac:(lra)) as NF.
  destruct (fd_rum s) eqn:R.
  - pose proof (no_grass_no_use l2 _ _ Hl2 G0 F0 ltac:(specialize (Gz eq_refl); lra)) as NG.
    apply Forall_and_l; [exact NF|].
    eapply Forall_impl; [|exact NG]. intros u Hu _. exact Hu.
  - eapply Forall_impl; [|exact NF]. intros u Hu. split; [exact Hu|discriminate].
Qed.

(* ------------------------------------------------------------------ C07: priority order *)

Fixpoint sorted_desc {A : Type} (key : A -> Q) (l : list A) : Prop :=
  match l with
  | [] => True
  | x :: l' => Forall (fun y => key y <= key x) l' /\ sorted_desc key l'
  end.

Lemma insert_desc_perm : forall (A : Type) (key : A -> Q) x l, Permutation (x :: l) (insert_desc key x l).
Proof.
  intros A key x l. induction l as [|y l IH]; cbn [insert_desc]; [apply Permutation_refl|].
  destruct (Qle_bool (key y) (key x)); [apply Permutation_refl|].
  eapply perm_trans; [apply perm_swap|]. apply perm_skip. exact IH.
Qed.

Lemma insert_desc_sorted : forall (A : Type) (key : A -> Q) x l, sorted_desc key l -> sorted_desc key (insert_desc key x l).
Proof.
  intros A key x l. induction l as [|y l IH]; intro H; cbn [insert_desc].
  - cbn. split; [constructor|exact I].
  - destruct (Qle_bool (key y) (key x)) eqn:E.
    + apply Qleb_true in E. destruct H as [H1 H2]. cbn [sorted_desc]. split; [|split; assumption].
      constructor; [exact E|]. eapply Forall_impl; [|exact H1]. intros z Hz. cbn beta in Hz. lra.
    + apply Qleb_false in E. destruct H as [H1 H2]. cbn [sorted_desc]. split; [|apply IH; exact H2].
      eapply Permutation_Forall; [apply insert_desc_perm|].
      constructor; [lra|exact H1].
Qed.

Lemma sort_desc_sorted : forall (A : Type) (key : A -> Q) l, sorted_desc key (sort_desc key l).
Proof.
  intros A key l. unfold sort_desc. induction l as [|x l IH]; cbn [fold_right]; [exact I|].
  apply insert_desc_sorted. exact IH.
Qed.

Lemma sort_desc_perm : forall (A : Type) (key : A -> Q) l, Permutation l (sort_desc key l).
Proof.
  intros A key l. unfold sort_desc. induction l as [|x l IH]; cbn [fold_right]; [constructor|].
  eapply perm_trans; [apply perm_skip; exact IH|apply insert_desc_perm].
Qed.
