(* Lemmas about Model/Herd.v (C07: feeding; C06: month step). *)
From Coq Require Import ZArith QArith Qabs Qround List Bool Lqa Lia Permutation.
From Allfed Require Import Base.QRound Model.Herd.
Import ListNotations.
Open Scope Q_scope.

(* ------------------------------------------------------------------ boolean tests *)

Lemma Qleb_true : forall x y, Qle_bool x y = true -> x <= y.
Proof. intros x y H. apply Qle_bool_iff. exact H. Qed.
Lemma Qleb_false : forall x y, Qle_bool x y = false -> y < x.
Proof.
  intros x y H. destruct (Qlt_le_dec y x) as [L|L]; [exact L|].
  apply Qle_bool_iff in L. congruence.
Qed.
Lemma Qltb_true : forall x y, Qltb x y = true -> x < y.
Proof. intros x y H. unfold Qltb in H. apply negb_true_iff in H. apply Qleb_false. exact H. Qed.
Lemma Qltb_false : forall x y, Qltb x y = false -> y <= x.
Proof. intros x y H. unfold Qltb in H. apply negb_false_iff in H. apply Qleb_true. exact H. Qed.
Lemma Qeqb_true : forall x y, Qeq_bool x y = true -> x == y.
Proof. intros x y H. apply Qeq_bool_iff. exact H. Qed.
Lemma Qeqb_false : forall x y, Qeq_bool x y = false -> ~ x == y.
Proof. intros x y H E. apply Qeq_bool_iff in E. congruence. Qed.

Ltac btest :=
  match goal with
  | |- context [Qltb ?a ?b] =>
      let E := fresh "E" in destruct (Qltb a b) eqn:E; [apply Qltb_true in E | apply Qltb_false in E]
  | |- context [Qle_bool ?a ?b] =>
      let E := fresh "E" in destruct (Qle_bool a b) eqn:E; [apply Qleb_true in E | apply Qleb_false in E]
  | |- context [Qeq_bool ?a ?b] =>
      let E := fresh "E" in destruct (Qeq_bool a b) eqn:E; [apply Qeqb_true in E | apply Qeqb_false in E]
  end.

Lemma pymin_cases : forall x y, (y < x /\ pymin x y = y) \/ (x <= y /\ pymin x y = x).
Proof. intros x y. unfold pymin. btest; [left|right]; split; auto. Qed.
Lemma pymax_cases : forall x y, (x < y /\ pymax x y = y) \/ (y <= x /\ pymax x y = x).
Proof. intros x y. unfold pymax. btest; [left|right]; split; auto. Qed.

Lemma pymin_comp_l : forall a a' c, a == a' -> pymin a' c == pymin a c.
Proof.
  intros a a' c H. unfold pymin.
  destruct (Qltb c a') eqn:C1; destruct (Qltb c a) eqn:C2; try reflexivity;
    [apply Qltb_true in C1; apply Qltb_false in C2|apply Qltb_false in C1; apply Qltb_true in C2|]; lra.
Qed.

Lemma div_mul_cancel : forall a b, ~ b == 0 -> (a / b) * b == a.
Proof. intros a b H. field. exact H. Qed.

Lemma div_nonneg : forall a b, 0 <= a -> 0 < b -> 0 <= a / b.
Proof. intros a b Ha Hb. apply Qle_shift_div_l; [exact Hb|]. lra. Qed.

(* ------------------------------------------------------------------ C07: one herd *)

Definition feeder_ok (s : feeder) : Prop := 0 <= fd_cur s /\ 0 <= fd_req s /\ 0 < fd_eg s /\ 0 < fd_ef s.

Definition feed_spec (s : feeder) (g f : Q) (o : fedout) : Prop :=
  (0 <= fo_grass o /\ fo_grass o <= g) /\
  (0 <= fo_feed o /\ fo_feed o <= f) /\
  (0 <= fo_bal o /\ fo_bal o <= fd_req s) /\
  fd_req s - fo_bal o == (g - fo_grass o) * fd_eg s + (f - fo_feed o) * fd_ef s /\
  (fd_rum s = false -> fo_grass o = g) /\
  (0 <= fo_fed o /\ fo_fed o <= fd_cur s) /\
  (fo_bal o == 0 -> fo_fed o = fd_cur s) /\
  (~ fo_bal o == 0 ->
     fo_fed o == pymin (Qround (((fd_req s - fo_bal o) / fd_req s) * fd_cur s)) (fd_cur s) /\
     Qabs (fo_fed o - fd_cur s * ((fd_req s - fo_bal o) / fd_req s)) <= 1 # 2) /\
  (~ fo_bal o == 0 -> fo_feed o == 0 /\ (fd_rum s = true -> fo_grass o == 0)).

Lemma partial_fed : forall p bal cur, 0 <= p -> p < bal -> 0 <= cur ->
  let fed := pymin (Qround ((p / bal) * cur)) cur in
  0 <= fed /\ fed <= cur /\ Qabs (fed - cur * (p / bal)) <= 1 # 2.
Proof.
  intros p bal cur Hp Hlt Hc fed.
  assert (Hb : 0 < bal) by lra.
  assert (Hr0 : 0 <= p / bal) by (apply div_nonneg; assumption).
  assert (Hr1 : p / bal <= 1) by (apply Qle_shift_div_r; [exact Hb|lra]).
  set (r := p / bal) in *.
  assert (Hx0 : 0 <= r * cur) by nra.
  assert (Hx1 : r * cur <= cur) by nra.
  destruct (Qround_bounds (r * cur)) as [B1 B2].
  pose proof (Qround_nonneg (r * cur) Hx0) as B0.
  subst fed. destruct (pymin_cases (Qround (r * cur)) cur) as [[L E]|[L E]]; rewrite E.
  - split; [lra|]. split; [lra|]. apply Qabs_Qle_condition. split; nra.
  - split; [lra|]. split; [lra|]. apply Qabs_Qle_condition. split; nra.
Qed.

Lemma feed_the_species_spec : forall s g f, feeder_ok s -> 0 <= g -> 0 <= f ->
  feed_spec s g f (feed_the_species s g f).
Proof.
  intros s g f (Hc & Hr & Heg & Hef) Hg Hf.
  unfold feed_spec, feed_the_species.
  destruct (Qeq_bool (fd_req s) 0) eqn:E0.
  { apply Qeqb_true in E0. cbn [fo_grass fo_feed fo_bal fo_fed].
    repeat split; try lra; auto; intro H; exfalso; apply H; exact E0. }
  apply Qeqb_false in E0.
  assert (Hr' : 0 < fd_req s).
  { destruct (Qlt_le_dec 0 (fd_req s)) as [L|L]; [exact L|]. exfalso. apply E0. lra. }
  assert (Hneg : 0 <= (if fd_rum s then g * fd_eg s else 0)).
  { destruct (fd_rum s); [nra|lra]. }
  assert (Hnef : 0 <= f * fd_ef s) by nra.
  set (neg := if fd_rum s then g * fd_eg s else 0) in *.
  set (nef := f * fd_ef s) in *.
  destruct (Qle_bool (fd_req s) neg) eqn:E1.
  { (* requirement met by grass *)
    apply Qleb_true in E1. cbn [fo_grass fo_feed fo_bal fo_fed].
    assert (Hrum : fd_rum s = true).
    { destruct (fd_rum s) eqn:R; [reflexivity|]. subst neg. lra. }
    subst neg. rewrite Hrum in *.
    assert (Hd0 : 0 <= fd_req s / fd_eg s) by (apply div_nonneg; lra).
    assert (Hd1 : fd_req s / fd_eg s <= g) by (apply Qle_shift_div_r; lra).
    assert (Hd2 : (fd_req s / fd_eg s) * fd_eg s == fd_req s) by (apply div_mul_cancel; lra).
    repeat split; try lra; try discriminate; auto; try nra;
      try (intro H; exfalso; apply H; reflexivity). }
  apply Qleb_false in E1.
  assert (Hreq1 : 0 < (if Qltb 0 neg then fd_req s - neg else fd_req s)) by (btest; lra).
  assert (Hg1 : (if Qltb 0 neg then 0 else g) * fd_eg s + 0 * 0 ==
                g * fd_eg s - neg).
  { btest.
    - destruct (fd_rum s); subst neg; [ring|lra].
    - assert (neg == 0) by lra. destruct (fd_rum s); subst neg; [nra|lra]. }
  assert (Hg1b : 0 <= (if Qltb 0 neg then 0 else g) /\ (if Qltb 0 neg then 0 else g) <= g) by (btest; lra).
  assert (Hg1r : fd_rum s = false -> (if Qltb 0 neg then 0 else g) = g).
  { intro R. subst neg. rewrite R. btest; [lra|reflexivity]. }
  assert (Hg1z : fd_rum s = true -> (if Qltb 0 neg then 0 else g) == 0).
  { intro R. subst neg. rewrite R in *. btest; [reflexivity|]. nra. }
  set (req1 := if Qltb 0 neg then fd_req s - neg else fd_req s) in *.
  set (g1 := if Qltb 0 neg then 0 else g) in *.
  assert (Hreq1e : req1 == fd_req s - neg).
  { subst req1. btest; [reflexivity|]. lra. }
  destruct (Qle_bool req1 nef) eqn:E2.
  { (* requirement met with feed *)
    apply Qleb_true in E2. cbn [fo_grass fo_feed fo_bal fo_fed].
    assert (Hd0 : 0 <= req1 / fd_ef s) by (apply div_nonneg; lra).
    assert (Hd1 : req1 / fd_ef s <= f) by (apply Qle_shift_div_r; [lra|subst nef; lra]).
    assert (Hd2 : (req1 / fd_ef s) * fd_ef s == req1) by (apply div_mul_cancel; lra).
    repeat split; try lra; auto; try nra;
      try (intro H; exfalso; apply H; reflexivity). }
  (* partially fed *)
  apply Qleb_false in E2. cbn [fo_grass fo_feed fo_bal fo_fed].
  assert (Hp0 : 0 <= neg + nef) by lra.
  assert (Hp1 : neg + nef < fd_req s) by lra.
  destruct (partial_fed (neg + nef) (fd_req s) (fd_cur s) Hp0 Hp1 Hc) as (F0 & F1 & F2).
  assert (Hdel : fd_req s - (fd_req s - (neg + nef)) == neg + nef) by ring.
  repeat split; try lra; auto.
  - subst nef. lra.
  - apply pymin_comp_l. apply Qround_comp. rewrite Hdel. reflexivity.
  - rewrite Hdel. exact F2.
Qed.

(* ------------------------------------------------------------------ C07: the priority list *)

Lemma feed_chain_app : forall l1 l2 g f,
  feed_chain (l1 ++ l2) g f =
  let '(os1, g1, f1) := feed_chain l1 g f in
  let '(os2, g2, f2) := feed_chain l2 g1 f1 in (os1 ++ os2, g2, f2).
Proof.
  induction l1 as [|s l1 IH]; intros l2 g f; cbn [feed_chain app].
  - destruct (feed_chain l2 g f) as [[os2 g2] f2]. reflexivity.
  - rewrite IH.
    destruct (feed_chain l1 (fo_grass (feed_the_species s g f)) (fo_feed (feed_the_species s g f))) as [[os1 g1] f1].
    destruct (feed_chain l2 g1 f1) as [[os2 g2] f2]. reflexivity.
Qed.

Lemma used_chain_app : forall l1 l2 g f,
  used_chain (l1 ++ l2) g f =
  let '(_, g1, f1) := feed_chain l1 g f in used_chain l1 g f ++ used_chain l2 g1 f1.
Proof.
  induction l1 as [|s l1 IH]; intros l2 g f; cbn [feed_chain used_chain app].
  - reflexivity.
  - rewrite IH.
    destruct (feed_chain l1 (fo_grass (feed_the_species s g f)) (fo_feed (feed_the_species s g f))) as [[os1 g1] f1].
    reflexivity.
Qed.

Fixpoint sumq (l : list Q) : Q := match l with [] => 0 | x :: l' => x + sumq l' end.

Lemma chain_conservation : forall l g f, Forall feeder_ok l -> 0 <= g -> 0 <= f ->
  let '(_, g', f') := feed_chain l g f in
  (0 <= g' /\ 0 <= f') /\
  sumq (map fst (used_chain l g f)) + g' == g /\
  sumq (map snd (used_chain l g f)) + f' == f /\
  Forall (fun u => 0 <= fst u /\ 0 <= snd u) (used_chain l g f).
Proof.
  induction l as [|s l IH]; intros g f Hok Hg Hf; cbn [feed_chain used_chain map sumq].
  - repeat split; try lra. constructor.
  - inversion Hok as [|? ? Hs Hl]; subst.
    destruct (feed_the_species_spec s g f Hs Hg Hf) as ((G0 & G1) & (F0 & F1) & _).
    specialize (IH (fo_grass (feed_the_species s g f)) (fo_feed (feed_the_species s g f)) Hl G0 F0).
    destruct (feed_chain l (fo_grass (feed_the_species s g f)) (fo_feed (feed_the_species s g f))) as [[os g'] f'].
    destruct IH as ((A & B) & C & D & E).
    cbn [fst snd]. repeat split; try lra.
    constructor; [cbn [fst snd]; lra|exact E].
Qed.

(* every herd of the list is fed according to feed_spec with the supplies the earlier herds left *)
Fixpoint chain_all (P : feeder -> Q -> Q -> fedout -> Prop) (l : list feeder) (g f : Q) : Prop :=
  match l with
  | [] => True
  | s :: l' => let o := feed_the_species s g f in P s g f o /\ chain_all P l' (fo_grass o) (fo_feed o)
  end.

Lemma chain_each : forall l g f, Forall feeder_ok l -> 0 <= g -> 0 <= f ->
  chain_all (fun s g f o => 0 <= g /\ 0 <= f /\ feed_spec s g f o) l g f.
Proof.
  induction l as [|s l IH]; intros g f Hok Hg Hf; cbn [chain_all]; [exact I|].
  inversion Hok as [|? ? Hs Hl]; subst.
  pose proof (feed_the_species_spec s g f Hs Hg Hf) as S.
  split.
  - split; [exact Hg|split; [exact Hf|exact S]].
  - destruct S as ((G0 & G1) & (F0 & F1) & _). apply IH; assumption.
Qed.

Lemma chain_all_nth : forall P l g f, chain_all P l g f ->
  forall l1 s l2, l = l1 ++ s :: l2 ->
  let '(_, g1, f1) := feed_chain l1 g f in P s g1 f1 (feed_the_species s g1 f1).
Proof.
  intros P l. induction l as [|x l IH]; intros g f H l1 s l2 E.
  - destruct l1; discriminate.
  - destruct l1 as [|y l1]; cbn [app] in E; inversion E; subst.
    + cbn [feed_chain]. apply H.
    + cbn [feed_chain]. destruct H as [_ H].
      specialize (IH _ _ H l1 s l2 eq_refl).
      destruct (feed_chain l1 (fo_grass (feed_the_species y g f)) (fo_feed (feed_the_species y g f))) as [[os g1] f1].
      exact IH.
Qed.

Lemma no_feed_no_use : forall l g f, Forall feeder_ok l -> 0 <= g -> 0 <= f -> f <= 0 ->
  Forall (fun u => snd u == 0) (used_chain l g f).
Proof.
  induction l as [|s l IH]; intros g f Hok Hg Hf Hz; cbn [used_chain]; constructor.
  - inversion Hok as [|? ? Hs Hl]; subst.
    destruct (feed_the_species_spec s g f Hs Hg Hf) as (_ & (F0 & F1) & _). cbn [snd]. lra.
  - inversion Hok as [|? ? Hs Hl]; subst.
    destruct (feed_the_species_spec s g f Hs Hg Hf) as ((G0 & G1) & (F0 & F1) & _).
    apply IH; try assumption. lra.
Qed.

Lemma no_grass_no_use : forall l g f, Forall feeder_ok l -> 0 <= g -> 0 <= f -> g <= 0 ->
  Forall (fun u => fst u == 0) (used_chain l g f).
Proof.
  induction l as [|s l IH]; intros g f Hok Hg Hf Hz; cbn [used_chain]; constructor.
  - inversion Hok as [|? ? Hs Hl]; subst.
    destruct (feed_the_species_spec s g f Hs Hg Hf) as ((G0 & G1) & _). cbn [fst]. lra.
  - inversion Hok as [|? ? Hs Hl]; subst.
    destruct (feed_the_species_spec s g f Hs Hg Hf) as ((G0 & G1) & (F0 & F1) & _).
    apply IH; try assumption. lra.
Qed.

Lemma Forall_and_l : forall (A : Type) (P R : A -> Prop) l, Forall P l -> Forall R l -> Forall (fun x => P x /\ R x) l.
Proof. intros A P R l HP. induction HP; intro HR; inversion HR; subst; constructor; auto. Qed.

(* strict priority: a herd that is left short exhausts the feed (and, if it is a ruminant, the grass),
   so nothing is served to any later herd from that resource *)
Lemma chain_priority : forall l1 s l2 g f, Forall feeder_ok (l1 ++ s :: l2) -> 0 <= g -> 0 <= f ->
  let '(_, g1, f1) := feed_chain l1 g f in
  let o := feed_the_species s g1 f1 in
  ~ fo_bal o == 0 ->
  Forall (fun u => snd u == 0 /\ (fd_rum s = true -> fst u == 0)) (used_chain l2 (fo_grass o) (fo_feed o)).
Proof.
  intros l1 s l2 g f Hok Hg Hf.
  pose proof (chain_all_nth _ _ _ _ (chain_each _ g f Hok Hg Hf) l1 s l2 eq_refl) as H.
  destruct (feed_chain l1 g f) as [[os1 g1] f1].
  destruct H as (Hg1 & Hf1 & S).
  intros o Hb. subst o.
  destruct S as ((G0 & G1) & (F0 & F1) & _ & _ & _ & _ & _ & _ & Hshort).
  destruct (Hshort Hb) as (Fz & Gz).
  apply Forall_app in Hok. destruct Hok as [_ Hok]. inversion Hok as [|? ? Hs Hl2]; subst.
  pose proof (no_feed_no_use l2 _ _ Hl2 G0 F0 ltac:(lra)) as NF.
  destruct (fd_rum s) eqn:R.
  - pose proof (no_grass_no_use l2 _ _ Hl2 G0 F0 ltac:(specialize (Gz eq_refl); lra)) as NG.
    apply Forall_and_l; [exact NF|].
    eapply Forall_impl; [|exact NG]. intros u Hu _. exact Hu.
  - eapply Forall_impl; [|exact NF]. intros u Hu. split; [exact Hu|discriminate].
Qed.

(* ------------------------------------------------------------------ C07: priority order *)

Fixpoint sorted_desc {A : Type} (key : A -> Q) (l : list A) : Prop :=
  match l with
  | [] => True
  | x :: l' => Forall (fun y => key y <= key x) l' /\ sorted_desc key l'
  end.

Lemma insert_desc_perm : forall (A : Type) (key : A -> Q) x l, Permutation (x :: l) (insert_desc key x l).
Proof.
  intros A key x l. induction l as [|y l IH]; cbn [insert_desc]; [apply Permutation_refl|].
  destruct (Qle_bool (key y) (key x)); [apply Permutation_refl|].
  eapply perm_trans; [apply perm_swap|]. apply perm_skip. exact IH.
Qed.

Lemma insert_desc_sorted : forall (A : Type) (key : A -> Q) x l, sorted_desc key l -> sorted_desc key (insert_desc key x l).
Proof.
  intros A key x l. induction l as [|y l IH]; intro H; cbn [insert_desc].
  - cbn. split; [constructor|exact I].
  - destruct (Qle_bool (key y) (key x)) eqn:E.
    + apply Qleb_true in E. destruct H as [H1 H2]. cbn [sorted_desc]. split; [|split; assumption].
      constructor; [exact E|]. eapply Forall_impl; [|exact H1]. intros z Hz. cbn beta in Hz. lra.
    + apply Qleb_false in E. destruct H as [H1 H2]. cbn [sorted_desc]. split; [|apply IH; exact H2].
      eapply Permutation_Forall; [apply insert_desc_perm|].
      constructor; [lra|exact H1].
Qed.

Lemma sort_desc_sorted : forall (A : Type) (key : A -> Q) l, sorted_desc key (sort_desc key l).
Proof.
  intros A key l. unfold sort_desc. induction l as [|x l IH]; cbn [fold_right]; [exact I|].
  apply insert_desc_sorted. exact IH.
Qed.

Lemma sort_desc_perm : forall (A : Type) (key : A -> Q) l, Permutation l (sort_desc key l).
Proof.
  intros A key l. unfold sort_desc. induction l as [|x l IH]; cbn [fold_right]; [constructor|].
  eapply perm_trans; [apply perm_skip; exact IH|apply insert_desc_perm].
Qed.


(* stability of sorted(..., reverse=True): within one key class the original relative order is kept *)
Lemma insert_desc_class_in : forall (A : Type) (key : A -> Q) q x l, key x == q ->
  filter (fun y => Qeq_bool (key y) q) (insert_desc key x l) = x :: filter (fun y => Qeq_bool (key y) q) l.
Proof.
  intros A key q x l Hx. induction l as [|y l IH]; cbn [insert_desc filter].
  - rewrite (proj2 (Qeq_bool_iff _ _) Hx). reflexivity.
  - destruct (Qle_bool (key y) (key x)) eqn:E.
    + cbn [filter]. rewrite (proj2 (Qeq_bool_iff _ _) Hx). reflexivity.
    + apply Qleb_false in E. cbn [filter].
      destruct (Qeq_bool (key y) q) eqn:Ey.
      * apply Qeq_bool_iff in Ey. exfalso. lra.
      * exact IH.
Qed.

Lemma insert_desc_class_out : forall (A : Type) (key : A -> Q) q x l, ~ key x == q ->
  filter (fun y => Qeq_bool (key y) q) (insert_desc key x l) = filter (fun y => Qeq_bool (key y) q) l.
Proof.
  intros A key q x l Hx.
  assert (Hb : Qeq_bool (key x) q = false).
  { destruct (Qeq_bool (key x) q) eqn:E; [apply Qeq_bool_iff in E; contradiction|reflexivity]. }
  induction l as [|y l IH]; cbn [insert_desc filter].
  - rewrite Hb. reflexivity.
  - destruct (Qle_bool (key y) (key x)) eqn:E; cbn [filter].
    + rewrite Hb. reflexivity.
    + rewrite IH. reflexivity.
Qed.

Lemma sort_desc_stable : forall (A : Type) (key : A -> Q) q l,
  filter (fun y => Qeq_bool (key y) q) (sort_desc key l) = filter (fun y => Qeq_bool (key y) q) l.
Proof.
  intros A key q l. unfold sort_desc. induction l as [|x l IH]; cbn [fold_right]; [reflexivity|].
  destruct (Qeq_bool (key x) q) eqn:E.
  - rewrite insert_desc_class_in by (apply Qeq_bool_iff; exact E).
    cbn [filter]. rewrite E, IH. reflexivity.
  - rewrite insert_desc_class_out by (intro H; apply Qeq_bool_iff in H; congruence).
    cbn [filter]. rewrite E. exact IH.
Qed.

(* a list that is already in priority order is left exactly as it is: the sort is idempotent *)
Lemma sort_desc_fixed : forall (A : Type) (key : A -> Q) l, sorted_desc key l -> sort_desc key l = l.
Proof.
  intros A key l. unfold sort_desc. induction l as [|x l IH]; intro H; cbn [fold_right]; [reflexivity|].
  destruct H as [H1 H2]. rewrite (IH H2).
  destruct l as [|y l]; cbn [insert_desc]; [reflexivity|].
  inversion H1 as [|? ? Hy _]; subst.
  rewrite (proj2 (Qle_bool_iff _ _) Hy). reflexivity.
Qed.

Lemma sort_desc_idem : forall (A : Type) (key : A -> Q) l, sort_desc key (sort_desc key l) = sort_desc key l.
Proof. intros A key l. apply sort_desc_fixed. apply sort_desc_sorted. Qed.


Lemma filter_head_in : forall (A : Type) (p : A -> bool) l x r, filter p l = x :: r -> In x l.
Proof. intros A p l x r H. assert (I : In x (filter p l)) by (rewrite H; left; reflexivity). apply filter_In in I. tauto. Qed.

(* sorted + stable determine the list: two priority-ordered lists with the same key classes (as sequences) are equal *)
Lemma sorted_classes_unique : forall (A : Type) (key : A -> Q) l1 l2,
  sorted_desc key l1 -> sorted_desc key l2 ->
  (forall q, filter (fun y => Qeq_bool (key y) q) l1 = filter (fun y => Qeq_bool (key y) q) l2) -> l1 = l2.
Proof.
  intros A key l1. induction l1 as [|x l1 IH]; intros l2 S1 S2 H.
  - destruct l2 as [|y l2]; [reflexivity|].
    specialize (H (key y)). cbn [filter] in H. rewrite (proj2 (Qeq_bool_iff _ _) (Qeq_refl _)) in H. discriminate.
  - destruct l2 as [|y l2].
    + specialize (H (key x)). cbn [filter] in H. rewrite (proj2 (Qeq_bool_iff _ _) (Qeq_refl _)) in H. discriminate.
    + destruct S1 as [F1 S1]. destruct S2 as [F2 S2].
      assert (Exy : x = y).
      { pose proof (H (key x)) as Hx. cbn [filter] in Hx.
        rewrite (proj2 (Qeq_bool_iff _ _) (Qeq_refl _)) in Hx.
        destruct (Qeq_bool (key y) (key x)) eqn:E; [congruence|].
        pose proof (H (key y)) as Hy. cbn [filter] in Hy.
        rewrite (proj2 (Qeq_bool_iff _ _) (Qeq_refl _)) in Hy.
        assert (E' : Qeq_bool (key x) (key y) = false).
        { destruct (Qeq_bool (key x) (key y)) eqn:E2; [|reflexivity].
          apply Qeq_bool_iff in E2. symmetry in E2. apply Qeq_bool_iff in E2. congruence. }
        rewrite E' in Hy.
        symmetry in Hx. apply filter_head_in in Hx. apply filter_head_in in Hy.
        rewrite Forall_forall in F1, F2. specialize (F1 _ Hy). specialize (F2 _ Hx). cbn beta in F1, F2.
        exfalso. apply Qeq_bool_neq in E. apply E. lra. }
      subst y. f_equal. apply IH; [assumption|assumption|].
      intro q. specialize (H q). cbn [filter] in H.
      destruct (Qeq_bool (key x) q); [congruence|exact H].
Qed.

(* the priority list is the ONLY list that is sorted by the key and keeps every key class in input order *)
Lemma sort_desc_unique : forall (A : Type) (key : A -> Q) l l',
  sorted_desc key l' ->
  (forall q, filter (fun y => Qeq_bool (key y) q) l' = filter (fun y => Qeq_bool (key y) q) l) ->
  l' = sort_desc key l.
Proof.
  intros A key l l' S H. apply sorted_classes_unique with (key := key); [exact S|apply sort_desc_sorted|].
  intro q. rewrite sort_desc_stable. apply H.
Qed.

Lemma sorted_chain_conservation : forall (key : feeder -> Q) l g f, Forall feeder_ok l -> 0 <= g -> 0 <= f ->
  let '(_, g', f') := feed_chain (sort_desc key l) g f in
  (0 <= g' /\ 0 <= f') /\
  sumq (map fst (used_chain (sort_desc key l) g f)) + g' == g /\
  sumq (map snd (used_chain (sort_desc key l) g f)) + f' == f /\
  Forall (fun u => 0 <= fst u /\ 0 <= snd u) (used_chain (sort_desc key l) g f).
Proof.
  intros key l g f H Hg Hf. apply chain_conservation; try assumption.
  eapply Permutation_Forall; [apply sort_desc_perm|exact H].
Qed.

(* ================================================================== C06: month step *)

Definition static_ok (st : sstatic) : Prop :=
  0 < st_hours st /\ 0 <= st_base_sl st /\ 0 <= st_target st /\ 0 <= st_death st /\ 0 <= st_starv st /\
  0 <= st_retfrac st /\ 0 <= st_perpreg st /\ 0 < st_ratio st /\ 0 < st_gest st /\
  (0 <= st_red st /\ st_red st <= 1).

Definition state_ok (s : sstate) : Prop :=
  0 <= s_pop s /\ 0 <= s_sl s /\ 0 <= s_ptot s /\ 0 <= s_pbirth s.

(* ---- calculate_animal_population *)
Lemma animal_population_spec : forall pop additive deaths planned target, 0 <= target ->
  let pre := pop - deaths + additive in
  let '(a, p1) := animal_population pop additive deaths planned target in
  0 <= a /\ 0 <= p1 /\
  (0 <= pre -> p1 == pre - a) /\ (pre < 0 -> a == 0 /\ p1 == 0) /\
  (a == 0 \/ (0 < a /\ a <= planned)) /\
  (target <= pre -> target <= p1) /\ (pre < target -> a == 0).
Proof.
  intros pop additive deaths planned target Ht pre. unfold animal_population. fold pre.
  destruct (Qltb pre target) eqn:E1; [apply Qltb_true in E1|apply Qltb_false in E1].
  - (* below target: no slaughter *)
    assert (Z : Qltb 0 0 = false) by reflexivity. rewrite Z.
    destruct (Qltb (pre - 0) 0) eqn:E3; [apply Qltb_true in E3|apply Qltb_false in E3];
      repeat split; try lra; try (left; reflexivity); try (intros; lra).
  - destruct (Qltb (pre - planned) target) eqn:E2; [apply Qltb_true in E2|apply Qltb_false in E2].
    + destruct (Qltb (pre - target) 0) eqn:E3; [apply Qltb_true in E3|apply Qltb_false in E3]; [lra|].
      destruct (Qltb (pre - (pre - target)) 0) eqn:E4; [apply Qltb_true in E4|apply Qltb_false in E4]; [lra|].
      repeat split; try lra; try (intros; lra).
    + destruct (Qltb planned 0) eqn:E3; [apply Qltb_true in E3|apply Qltb_false in E3].
      * destruct (Qltb (pre - 0) 0) eqn:E4; [apply Qltb_true in E4|apply Qltb_false in E4]; [lra|].
        repeat split; try lra; try (left; reflexivity); try (intros; lra).
      * destruct (Qltb (pre - planned) 0) eqn:E4; [apply Qltb_true in E4|apply Qltb_false in E4]; [lra|].
        repeat split; try lra; try (intros; lra).
Qed.

(* ---- calculate_slaughter_rate: never plans more than the remaining hours allow *)
Lemma slaughter_rate_spec : forall month0 st s remaining, 0 < st_hours st ->
  let planned := slaughter_rate month0 st s remaining in
  (remaining <= 0 -> planned == 0) /\ (0 < remaining -> planned * st_hours st <= remaining).
Proof.
  intros month0 st s remaining Hh planned. subst planned. unfold slaughter_rate.
  destruct (Qltb 0 remaining) eqn:E; [apply Qltb_true in E|apply Qltb_false in E].
  - split; [intro; lra|]. intros _.
    rewrite div_mul_cancel by lra.
    destruct (pymin_cases ((if month0 then st_base_sl st else s_sl s) * st_hours st) remaining) as [[L ->]|[L ->]]; lra.
  - split; [intros; reflexivity|intro; lra].
Qed.

Lemma zero_div : forall h, 0 / h == 0.
Proof. intro h. unfold Qdiv. ring. Qed.

(* ---- body of the slaughter loop *)
Lemma phase_b_spec : forall month0 st a tr remaining, static_ok st -> 0 <= remaining ->
  let b := phase_b month0 st a tr remaining in
  let ret := if st_milk st then a_ret a else 0 in
  let pre := s_pop (a_state a) - (b_other_death b + ret) + b_additive b in
  b_additive b = (if st_milk st then a_births a else a_births a + tr) /\
  b_transfer b = (if st_milk st then - tr else tr) /\
  b_other_death b = s_pop (a_state a) * st_death st /\
  0 <= b_slaughter b /\ 0 <= b_pop1 b /\
  (0 <= pre -> b_pop1 b == pre - b_slaughter b) /\ (pre < 0 -> b_slaughter b == 0 /\ b_pop1 b == 0) /\
  (st_target st <= pre -> st_target st <= b_pop1 b) /\ (pre < st_target st -> b_slaughter b == 0) /\
  b_remaining b == remaining - b_slaughter b * st_hours st /\ 0 <= b_remaining b /\
  0 <= b_ptot b /\ 0 <= b_pbirth b.
Proof.
  intros month0 st a tr remaining Hok Hrem.
  destruct Hok as (Hh & Hbs & Ht & Hd & Hsv & Hrf & Hpp & Hra & Hge & Hred).
  unfold phase_b.
  pose proof (animal_population_spec (s_pop (a_state a)) (if st_milk st then a_births a else a_births a + tr)
                (s_pop (a_state a) * st_death st + (if st_milk st then a_ret a else 0))
                (slaughter_rate month0 st (a_state a) remaining) (st_target st) Ht) as AP.
  destruct (animal_population _ _ _ _ _) as [actual p1]. cbn zeta in AP.
  destruct (slaughter_rate_spec month0 st (a_state a) remaining Hh) as [S0 S1].
  assert (PS : 0 <= fst (pregnant_slaughter st (a_state a) actual)).
  { unfold pregnant_slaughter.
    destruct (if Qeq_bool (s_pfrac (a_state a)) 0 then _ else _) as [pt sp]. cbn [fst]. btest; lra. }
  destruct (pregnant_slaughter st (a_state a) actual) as [pt sp]. cbn [fst] in PS.
  cbn [b_additive b_transfer b_other_death b_slaughter b_pop1 b_remaining b_ptot b_pbirth].
  rewrite !Qred_correct.
  destruct AP as (A0 & P0 & P1 & P2 & A1 & T1 & T2).
  repeat split; try assumption; try reflexivity; try lra.
  - destruct A1 as [Z|[Z1 Z2]]; [nra|].
    destruct (Qlt_le_dec 0 remaining) as [L|L].
    + specialize (S1 L). nra.
    + specialize (S0 L). lra.
  - apply div_nonneg; assumption.
Qed.

(* ---- homekill / starvation / final population with the country's constants (no homekill hours) *)
Lemma phase_c_spec : forall st pop_start sv b budget, budget == 0 ->
  0 < st_hours st -> 0 <= st_starv st -> 0 <= b_other_death b ->
  0 <= b_ptot b -> 0 <= b_pbirth b ->
  let c := phase_c st pop_start sv b budget in
  c_hk_other c == 0 /\ c_hk_healthy c == 0 /\ c_hk_starving c == 0 /\ c_hk_total c == 0 /\ c_budget c == 0 /\
  0 <= c_starve_death c /\ c_od_total c == c_starve_death c + b_other_death b /\
  (sv - b_slaughter b <= 0 -> c_starve_death c == 0) /\
  (0 <= sv - b_slaughter b -> c_starve_death c == (sv - b_slaughter b) * st_starv st) /\
  (0 <= b_pop1 b - c_starve_death c -> c_pop c == b_pop1 b - c_starve_death c) /\
  (b_pop1 b - c_starve_death c <= 0 -> c_pop c == 0) /\
  0 <= c_ptot c /\ 0 <= c_pbirth c.
Proof.
  intros st pop_start sv b budget Hb0 Hh Hsv Hod Hpt Hpb. unfold phase_c, hk_other_rate, hk_fraction.
  pose proof (zero_div (st_hours st)) as Z.
  set (h := st_hours st) in *.
  assert (Z0 : budget / h == 0) by (rewrite Hb0; exact Z).
  (* hk1 *)
  assert (H1 : pymin (b_other_death b * (1 # 2)) (budget / h) == 0).
  { destruct (pymin_cases (b_other_death b * (1 # 2)) (budget / h)) as [[L ->]|[L ->]]; lra. }
  set (hk1 := pymin (b_other_death b * (1 # 2)) (budget / h)) in *.
  assert (B1 : budget - hk1 * h == 0) by (rewrite H1, Hb0; ring).
  set (bud1 := budget - hk1 * h) in *.
  assert (Z1 : bud1 / h == 0) by (rewrite B1; exact Z).
  assert (H2 : pymin (0 * b_pop1 b) (bud1 / h) == 0).
  { destruct (pymin_cases (0 * b_pop1 b) (bud1 / h)) as [[L ->]|[L ->]]; lra. }
  set (hk2 := pymin (0 * b_pop1 b) (bud1 / h)) in *.
  assert (B2 : bud1 - hk2 * h == 0) by (rewrite B1, H2; ring).
  set (bud2 := bud1 - hk2 * h) in *.
  assert (Z2 : bud2 / h == 0) by (rewrite B2; exact Z).
  set (sv0 := sv - b_slaughter b - hk2) in *.
  assert (S1 : 0 <= (if Qltb sv0 0 then 0 else sv0)) by (btest; lra).
  assert (S1a : sv0 <= 0 -> (if Qltb sv0 0 then 0 else sv0) == 0) by (intro; btest; lra).
  assert (S1b : 0 <= sv0 -> (if Qltb sv0 0 then 0 else sv0) == sv0) by (intro; btest; lra).
  set (sv1 := if Qltb sv0 0 then 0 else sv0) in *.
  assert (C0 : (if Qltb (bud2 / h) 0 then 0 else bud2 / h) == 0) by (btest; lra).
  set (cap := if Qltb (bud2 / h) 0 then 0 else bud2 / h) in *.
  assert (H3 : pymin sv1 cap == 0).
  { destruct (pymin_cases sv1 cap) as [[L ->]|[L ->]]; lra. }
  set (hk3 := pymin sv1 cap) in *.
  assert (S2 : pymax (sv1 - hk3) 0 == sv1).
  { destruct (pymax_cases (sv1 - hk3) 0) as [[L ->]|[L ->]]; lra. }
  set (sv2 := pymax (sv1 - hk3) 0) in *.
  assert (SD : 0 <= sv2 * st_starv st) by (rewrite S2; nra).
  set (sd := sv2 * st_starv st) in *.
  assert (PT : 0 <= fst (if Qeq_bool (st_red st) 0 && Qeq_bool (st_tfrac st) 1 && Qltb sd 10
              then (b_ptot b, b_pbirth b)
              else (if Qltb (b_ptot b - b_ptot b * (if Qeq_bool pop_start 0 then 1 else (sd + b_other_death b) / pop_start)) 0 then 0
                    else b_ptot b - b_ptot b * (if Qeq_bool pop_start 0 then 1 else (sd + b_other_death b) / pop_start),
                    if Qltb (b_pbirth b - b_pbirth b * (if Qeq_bool pop_start 0 then 1 else (sd + b_other_death b) / pop_start)) 0 then 0
                    else b_pbirth b - b_pbirth b * (if Qeq_bool pop_start 0 then 1 else (sd + b_other_death b) / pop_start))) /\
             0 <= snd (if Qeq_bool (st_red st) 0 && Qeq_bool (st_tfrac st) 1 && Qltb sd 10
              then (b_ptot b, b_pbirth b)
              else (if Qltb (b_ptot b - b_ptot b * (if Qeq_bool pop_start 0 then 1 else (sd + b_other_death b) / pop_start)) 0 then 0
                    else b_ptot b - b_ptot b * (if Qeq_bool pop_start 0 then 1 else (sd + b_other_death b) / pop_start),
                    if Qltb (b_pbirth b - b_pbirth b * (if Qeq_bool pop_start 0 then 1 else (sd + b_other_death b) / pop_start)) 0 then 0
                    else b_pbirth b - b_pbirth b * (if Qeq_bool pop_start 0 then 1 else (sd + b_other_death b) / pop_start)))).
  { destruct (Qeq_bool (st_red st) 0 && Qeq_bool (st_tfrac st) 1 && Qltb sd 10); cbn [fst snd]; [split; assumption|].
    split; btest; lra. }
  destruct (if Qeq_bool (st_red st) 0 && Qeq_bool (st_tfrac st) 1 && Qltb sd 10 then _ else _) as [pt pb].
  cbn [fst snd] in PT. destruct PT as [PT PB].
  cbn [c_hk_other c_hk_healthy c_hk_starving c_hk_total c_budget c_starve_death c_od_total c_pop c_ptot c_pbirth].
  rewrite !Qred_correct.
  assert (SDa : sv - b_slaughter b <= 0 -> sd == 0).
  { intro H. subst sd. rewrite S2. rewrite S1a; [ring|]. subst sv0. lra. }
  assert (SDb : 0 <= sv - b_slaughter b -> sd == (sv - b_slaughter b) * st_starv st).
  { intro H. subst sd. rewrite S2. rewrite S1b; subst sv0; [|lra]. rewrite H2. ring. }
  repeat split; try assumption; try lra.
  - rewrite B2, H3. ring.
  - intro H. btest; lra.
  - intro H. btest; lra.
Qed.

(* ---- the ledger of one herd and one month, single clamp *)
Lemma ledger_one : forall month0 st a tr remaining sv budget, budget == 0 ->
  static_ok st -> 0 <= remaining -> 0 <= s_pop (a_state a) ->
  let b := phase_b month0 st a tr remaining in
  let c := phase_c st (s_pop (a_state a)) sv b budget in
  let x := s_pop (a_state a) + a_births a + (if st_milk st then 0 else tr) - (if st_milk st then a_ret a else 0)
           - b_other_death b - b_slaughter b - c_starve_death c - c_hk_healthy c - c_hk_starving c in
  (0 <= x -> c_pop c == x) /\ (x <= 0 -> c_pop c == 0) /\ 0 <= c_pop c.
Proof.
  intros month0 st a tr remaining sv budget Hb0 Hok Hrem Hpop.
  pose proof (phase_b_spec month0 st a tr remaining Hok Hrem) as B. cbn zeta in B.
  destruct Hok as (Hh & Hbs & Ht & Hd & Hsv & Hrf & Hpp & Hra & Hge & Hred).
  destruct B as (Ba & Bt & Bo & Bs & Bp & B1 & B2 & _ & _ & _ & _ & Bpt & Bpb).
  assert (Hod : 0 <= b_other_death (phase_b month0 st a tr remaining)) by (rewrite Bo; nra).
  pose proof (phase_c_spec st (s_pop (a_state a)) sv _ budget Hb0 Hh Hsv Hod Bpt Bpb) as C. cbn zeta in C.
  destruct C as (_ & C2 & C3 & _ & _ & C6 & _ & _ & _ & C10 & C11 & _).
  cbn zeta. rewrite Ba in *.
  set (b := phase_b month0 st a tr remaining) in *.
  set (c := phase_c st (s_pop (a_state a)) sv b budget) in *.
  set (pre := s_pop (a_state a) - (b_other_death b + (if st_milk st then a_ret a else 0)) +
              (if st_milk st then a_births a else a_births a + tr)) in *.
  assert (Ex : s_pop (a_state a) + a_births a + (if st_milk st then 0 else tr) - (if st_milk st then a_ret a else 0)
               - b_other_death b - b_slaughter b - c_starve_death c - c_hk_healthy c - c_hk_starving c
               == pre - b_slaughter b - c_starve_death c).
  { subst pre. rewrite C2, C3. destruct (st_milk st); ring. }
  rewrite Ex.
  destruct (Qlt_le_dec pre 0) as [L|L].
  - destruct (B2 L) as [Z1 Z2]. repeat split.
    + intro H. lra.
    + intro H. apply C11. lra.
    + destruct (Qlt_le_dec (b_pop1 b - c_starve_death c) 0) as [M|M]; [rewrite C11; lra|rewrite C10; lra].
  - specialize (B1 L). repeat split.
    + intro H. rewrite C10; lra.
    + intro H. apply C11. lra.
    + destruct (Qlt_le_dec (b_pop1 b - c_starve_death c) 0) as [M|M]; [rewrite C11; lra|rewrite C10; lra].
Qed.

(* ---- hours budget of the greedy loop, per size class *)
Fixpoint hours_used (z : size) (l : list (sstatic * phaseA)) (bs : list phaseB) : Q :=
  match l, bs with
  | (st, _) :: l', b :: bs' =>
      (if size_eqb (st_size st) z then b_slaughter b * st_hours st else 0) + hours_used z l' bs'
  | _, _ => 0
  end.

Definition hours_nonneg (h : hours3) : Prop := 0 <= hget h Small /\ 0 <= hget h Medium /\ 0 <= hget h Large.

Lemma hget_hset_same : forall h z v, hget (hset h z v) z = v.
Proof. intros [[a b] c] z v. destruct z; reflexivity. Qed.
Lemma hget_hset_other : forall h z z' v, size_eqb z z' = false -> hget (hset h z v) z' = hget h z'.
Proof. intros [[a b] c] z z' v H. destruct z, z'; try reflexivity; discriminate. Qed.
Lemma size_eqb_refl : forall z, size_eqb z z = true.
Proof. destruct z; reflexivity. Qed.

Lemma phase_b_loop_hours : forall month0 all l h, Forall (fun x => static_ok (fst x)) l -> hours_nonneg h ->
  let '(bs, h') := phase_b_loop month0 all l h in
  hours_nonneg h' /\ List.length bs = List.length l /\
  forall z, hours_used z l bs + hget h' z == hget h z.
Proof.
  intros month0 all l. induction l as [|[st a] l IH]; intros h Hok Hh; cbn [phase_b_loop].
  - split; [exact Hh|]. split; [reflexivity|]. intro z. cbn. ring.
  - inversion Hok as [|? ? Hst Hl]; subst. cbn [fst] in Hst.
    set (b := phase_b month0 st a (transfer_of (st_sp st) all 0) (hget h (st_size st))).
    assert (Hrem : 0 <= hget h (st_size st)) by (destruct Hh as (A & B & C); destruct (st_size st); assumption).
    pose proof (phase_b_spec month0 st a (transfer_of (st_sp st) all 0) (hget h (st_size st)) Hst Hrem) as B.
    cbn zeta in B. fold b in B.
    destruct B as (_ & _ & _ & _ & _ & _ & _ & _ & _ & Br & Br0 & _).
    assert (Hh' : hours_nonneg (hset h (st_size st) (b_remaining b))).
    { destruct Hh as (A & B & C). destruct h as [[x y] w]. unfold hours_nonneg. destruct (st_size st); cbn in *; repeat split; assumption. }
    specialize (IH (hset h (st_size st) (b_remaining b)) Hl Hh').
    destruct (phase_b_loop month0 all l (hset h (st_size st) (b_remaining b))) as [bs h'].
    destruct IH as (I1 & I2 & I3).
    split; [exact I1|]. split; [cbn [List.length]; rewrite I2; reflexivity|].
    intro z. cbn [hours_used]. specialize (I3 z).
    destruct (size_eqb (st_size st) z) eqn:E.
    + assert (st_size st = z) by (destruct (st_size st), z; try discriminate; reflexivity). subst z.
      rewrite hget_hset_same in I3. lra.
    + rewrite (hget_hset_other _ _ _ _ E) in I3. lra.
Qed.

Lemma hours_used_le : forall month0 all l h, Forall (fun x => static_ok (fst x)) l -> hours_nonneg h ->
  forall z, hours_used z l (fst (phase_b_loop month0 all l h)) <= hget h z.
Proof.
  intros month0 all l h Hok Hh z. pose proof (phase_b_loop_hours month0 all l h Hok Hh) as P.
  destruct (phase_b_loop month0 all l h) as [bs h']. cbn [fst]. destruct P as ((A & B & C) & _ & P).
  specialize (P z). destruct z; cbn in *; lra.
Qed.

Lemma hours_of_size_nonneg : forall z l, Forall static_ok l -> 0 <= hours_of_size z l.
Proof.
  intros z l H. induction H as [|st l Hst Hl IH]; cbn [hours_of_size]; [lra|].
  destruct Hst as (Hh & Hbs & _). destruct (size_eqb (st_size st) z); nra.
Qed.

(* ---- transfers: what the meat herd receives is what the dairy herd of the species sends *)
Lemma transfer_of_last : forall sp l2 l1 stm am acc,
  st_milk stm = true -> st_sp stm = sp ->
  Forall (fun x => st_milk (fst x) && Nat.eqb (st_sp (fst x)) sp = false) l2 ->
  transfer_of sp (l1 ++ (stm, am) :: l2) acc = a_ret am + a_tbirths am.
Proof.
  intros sp l2. assert (K : forall acc, Forall (fun x => st_milk (fst x) && Nat.eqb (st_sp (fst x)) sp = false) l2 ->
                              transfer_of sp l2 acc = acc).
  { induction l2 as [|[st a] l2 IH]; intros acc H; cbn [transfer_of]; [reflexivity|].
    inversion H as [|? ? H1 H2]; subst. cbn [fst] in H1. rewrite H1. apply IH. exact H2. }
  induction l1 as [|[st a] l1 IH]; intros stm am acc Hm Hs Hl2; cbn [app transfer_of].
  - rewrite Hm, Hs, Nat.eqb_refl. cbn [andb]. apply K. exact Hl2.
  - apply IH; assumption.
Qed.

Lemma transfer_of_none : forall sp l acc,
  Forall (fun x => st_milk (fst x) && Nat.eqb (st_sp (fst x)) sp = false) l -> transfer_of sp l acc = acc.
Proof.
  intros sp l. induction l as [|[st a] l IH]; intros acc H; cbn [transfer_of]; [reflexivity|].
  inversion H as [|? ? H1 H2]; subst. cbn [fst] in H1. rewrite H1. apply IH. exact H2.
Qed.

(* ---- births and the carried state stay non-negative *)
Lemma phase_a_nonneg : forall m st s, static_ok st -> state_ok s ->
  let a := phase_a m (st, s) in
  state_ok (a_state a) /\ s_pop (a_state a) = s_pop s /\
  0 <= a_births a /\ (st_cull st <= 1 -> 1 <= st_ratio st -> 0 <= a_tbirths a) /\ 0 <= a_ret a /\
  a_tbirths a == a_births a * (st_ratio st - 1) * (1 - st_cull st) /\
  a_ret a = s_pop s * st_retfrac st.
Proof.
  intros m st s Hok (Hp & Hs & Ht & Hb).
  destruct Hok as (Hh & Hbs & Htg & Hd & Hsv & Hrf & Hpp & Hra & Hge & (Hr0 & Hr1)).
  unfold phase_a, births, retiring, breeding.
  destruct (Qle_bool (Qabs (m - st_gest st)) (1 # 2)); cbn [a_state a_births a_tbirths a_ret s_pop s_sl s_ptot s_pbirth];
    unfold state_ok; cbn [s_pop s_sl s_ptot s_pbirth].
  - assert (0 <= s_pbirth s * (1 - st_red st) * st_perpreg st)
      by (apply Qmult_le_0_compat; [apply Qmult_le_0_compat|]; lra).
    assert (0 <= s_pbirth s * (1 - st_red st) * st_perpreg st / st_ratio st) by (apply div_nonneg; assumption).
    repeat split; try assumption; try reflexivity; try lra;
      try (intros C R; apply Qmult_le_0_compat; [apply Qmult_le_0_compat|]; lra); try nra.
  - assert (0 <= s_pbirth s * st_perpreg st) by nra.
    assert (0 <= s_pbirth s * st_perpreg st / st_ratio st) by (apply div_nonneg; assumption).
    repeat split; try assumption; try reflexivity; try lra;
      try (intros C R; apply Qmult_le_0_compat; [apply Qmult_le_0_compat|]; lra); try nra.
Qed.

(* ---- the homekill budget handed from herd to herd by the loop stays 0, so phase_c_spec / ledger_one apply to every herd *)
Fixpoint budgets (l : list (sstatic * Q * Q * phaseB)) (budget : Q) : list Q :=
  match l with
  | [] => []
  | (st, ps, sv, b) :: l' => budget :: budgets l' (c_budget (phase_c st ps sv b budget))
  end.

Lemma budgets_zero : forall l budget, budget == 0 ->
  Forall (fun x : sstatic * Q * Q * phaseB =>
            let '(st, _, _, b) := x in
            0 < st_hours st /\ 0 <= st_starv st /\ 0 <= b_other_death b /\ 0 <= b_ptot b /\ 0 <= b_pbirth b) l ->
  Forall (fun q => q == 0) (budgets l budget).
Proof.
  induction l as [|[[[st ps] sv] b] l IH]; intros budget Hb H; cbn [budgets]; constructor; [exact Hb|].
  inversion H as [|? ? Hx Hl]; subst. cbn beta iota in Hx. destruct Hx as (H1 & H2 & H3 & H4 & H5).
  apply IH; [|exact Hl].
  pose proof (phase_c_spec st ps sv b budget Hb H1 H2 H3 H4 H5) as C. cbn zeta in C.
  destruct C as (_ & _ & _ & _ & C5 & _). exact C5.
Qed.

Lemma phase_c_loop_unfold : forall l budget,
  phase_c_loop l budget =
  map (fun xq : (sstatic * Q * Q * phaseB) * Q => let '(st, ps, sv, b, q) := xq in phase_c st ps sv b q)
      (combine l (budgets l budget)).
Proof.
  induction l as [|[[[st ps] sv] b] l IH]; intro budget; cbn [phase_c_loop budgets combine map]; [reflexivity|].
  rewrite IH. reflexivity.
Qed.

(* ================================================================== C06: the assembled month_step, herd by herd *)

Section Forall2_tools.
Context {A B C D E : Type}.

Lemma F2_self_map : forall (f : A -> B) (R : A -> B -> Prop) l, (forall x, R x (f x)) -> Forall2 R l (map f l).
Proof. intros f R l H. induction l; cbn [map]; constructor; auto. Qed.

Lemma F2_map_r : forall (R : A -> C -> Prop) (f : B -> C) l l',
  Forall2 (fun x y => R x (f y)) l l' -> Forall2 R l (map f l').
Proof. intros R f l l' H. induction H; cbn [map]; constructor; auto. Qed.

Lemma F2_map_l : forall (R : B -> C -> Prop) (f : A -> B) l l',
  Forall2 R (map f l) l' -> Forall2 (fun x y => R (f x) y) l l'.
Proof.
  intros R f l. induction l as [|x l IH]; intros l' H; cbn [map] in H; inversion H; subst; constructor; auto.
Qed.

Lemma F2_trans : forall (R1 : A -> B -> Prop) (R2 : B -> C -> Prop) l z c,
  Forall2 R1 l z -> Forall2 R2 z c -> Forall2 (fun x y => exists q, R1 x q /\ R2 q y) l c.
Proof.
  intros R1 R2 l z c H. revert c. induction H; intros c H2; inversion H2; subst; constructor; eauto.
Qed.

Lemma F2_combine : forall (Ra : A -> B -> Prop) (Rb : A -> C -> Prop) l a b,
  Forall2 Ra l a -> Forall2 Rb l b -> Forall2 (fun x p => Ra x (fst p) /\ Rb x (snd p)) l (combine a b).
Proof.
  intros Ra Rb l a b H. revert b. induction H; intros b H2; inversion H2; subst; cbn [combine]; constructor; auto.
Qed.

Lemma F2_zip4 : forall (Ra : A -> B -> Prop) (Rb : A -> C -> Prop) (Rc : A -> D -> Prop) (Rd : A -> E -> Prop) l a b c d,
  Forall2 Ra l a -> Forall2 Rb l b -> Forall2 Rc l c -> Forall2 Rd l d ->
  Forall2 (fun x q => let '(p1, p2, p3, p4) := q in Ra x p1 /\ Rb x p2 /\ Rc x p3 /\ Rd x p4) l (zip4 a b c d).
Proof.
  intros Ra Rb Rc Rd l a b c d H. revert b c d.
  induction H; intros b c d H2 H3 H4; inversion H2; inversion H3; inversion H4; subst; cbn [zip4]; constructor; auto.
Qed.

Lemma F2_len : forall (l : list A) (a : list B), List.length a = List.length l -> Forall2 (fun _ _ => True) l a.
Proof.
  induction l as [|x l IH]; intros [|y a] H; cbn in H; try discriminate; constructor; auto.
Qed.

Lemma F2_Forall_r : forall (R : A -> B -> Prop) (P : B -> Prop) l z,
  Forall2 R l z -> (forall x q, R x q -> P q) -> Forall P z.
Proof. intros R P l z H K. induction H; constructor; eauto. Qed.

Lemma F2_with_l : forall (R : A -> B -> Prop) (P : A -> Prop) l z,
  Forall P l -> Forall2 R l z -> Forall2 (fun x y => P x /\ R x y) l z.
Proof. intros R P l z HP H. induction H; inversion HP; subst; constructor; auto. Qed.

Lemma Forall2_impl : forall (R R' : A -> B -> Prop) l z, (forall x y, R x y -> R' x y) -> Forall2 R l z -> Forall2 R' l z.
Proof. intros R R' l z K H. induction H; constructor; auto. Qed.

Lemma F2_length : forall (R : A -> B -> Prop) l z, Forall2 R l z -> List.length z = List.length l.
Proof. intros R l z H. induction H; cbn; auto. Qed.
Lemma F2_fst : forall (l : list A) (z : list B), List.length z = List.length l ->
  Forall2 (fun p x => x = fst p) (combine l z) l.
Proof. induction l as [|x l IH]; intros [|y z] H; cbn in *; try discriminate; constructor; auto. Qed.

Lemma F2_snd : forall (l : list A) (z : list B), List.length z = List.length l ->
  Forall2 (fun p y => y = snd p) (combine l z) z.
Proof. induction l as [|x l IH]; intros [|y z] H; cbn in *; try discriminate; constructor; auto. Qed.

Lemma F2_Forall_combine : forall (R : A -> B -> Prop) l z, Forall2 R l z -> Forall (fun p => R (fst p) (snd p)) (combine l z).
Proof. intros R l z H. induction H; cbn [combine]; constructor; auto. Qed.

Lemma F2_uncombine : forall (R : A -> C -> Prop) (l : list A) (z : list B) rs, List.length z = List.length l ->
  Forall2 (fun p r => R (fst p) r) (combine l z) rs -> Forall2 R l rs.
Proof.
  induction l as [|x l IH]; intros [|y z] rs H H2; cbn in *; try discriminate; inversion H2; subst; constructor; eauto.
Qed.
End Forall2_tools.

Lemma zip4_third : forall (A B C D : Type) (c : list C) (a : list A) (b : list B) (d : list D),
  List.length a = List.length c -> List.length b = List.length c -> List.length d = List.length c ->
  map (fun q : A * B * C * D => let '(_, _, z, _) := q in z) (zip4 a b c d) = c.
Proof.
  induction c as [|z c IH]; intros [|x a] [|y b] [|w d] H1 H2 H3; cbn in *; try discriminate; try reflexivity.
  f_equal. apply IH; congruence.
Qed.

Lemma feed_chain_length : forall l g f, List.length (fst (fst (feed_chain l g f))) = List.length l.
Proof.
  induction l as [|s l IH]; intros g f; cbn [feed_chain]; [reflexivity|].
  specialize (IH (fo_grass (feed_the_species s g f)) (fo_feed (feed_the_species s g f))).
  destruct (feed_chain l _ _) as [[os g'] f']. cbn [fst] in *. cbn [List.length]. rewrite IH. reflexivity.
Qed.

Definition herd_ok (x : sstatic * sstate) : Prop := static_ok (fst x) /\ state_ok (snd x).

Definition als_of (m : Q) (l : list (sstatic * sstate)) : list (sstatic * phaseA) :=
  map (fun x : sstatic * sstate => (fst x, phase_a m x)) l.

Definition h0_of (l : list (sstatic * sstate)) : hours3 :=
  (hours_of_size Small (map fst l), hours_of_size Medium (map fst l), hours_of_size Large (map fst l)).

(* every herd of the slaughter loop is processed by phase_b with non-negative remaining hours *)
Lemma phase_b_loop_rel : forall month0 all l h, Forall (fun x => static_ok (fst x)) l -> hours_nonneg h ->
  Forall2 (fun sa b => exists remaining, 0 <= remaining /\
             b = phase_b month0 (fst sa) (snd sa) (transfer_of (st_sp (fst sa)) all 0) remaining)
          l (fst (phase_b_loop month0 all l h)).
Proof.
  intros month0 all l. induction l as [|[st a] l IH]; intros h Hok Hh; cbn [phase_b_loop]; [constructor|].
  inversion Hok as [|? ? Hst Hl]; subst. cbn [fst] in Hst.
  set (b := phase_b month0 st a (transfer_of (st_sp st) all 0) (hget h (st_size st))).
  assert (Hrem : 0 <= hget h (st_size st)) by (destruct Hh as (A & B & C); destruct (st_size st); assumption).
  pose proof (phase_b_spec month0 st a (transfer_of (st_sp st) all 0) (hget h (st_size st)) Hst Hrem) as B.
  cbn zeta in B. fold b in B.
  destruct B as (_ & _ & _ & _ & _ & _ & _ & _ & _ & Br & Br0 & _).
  assert (Hh' : hours_nonneg (hset h (st_size st) (b_remaining b))).
  { destruct Hh as (A & B & C). destruct h as [[x y] w]. unfold hours_nonneg. destruct (st_size st); cbn in *; repeat split; assumption. }
  specialize (IH (hset h (st_size st) (b_remaining b)) Hl Hh').
  destruct (phase_b_loop month0 all l (hset h (st_size st) (b_remaining b))) as [bs h']. cbn [fst] in *.
  constructor; [|exact IH]. exists (hget h (st_size st)). split; [exact Hrem|reflexivity].
Qed.

Definition c_side (x : sstatic * Q * Q * phaseB) : Prop :=
  let '(st, _, _, b) := x in
  0 < st_hours st /\ 0 <= st_starv st /\ 0 <= b_other_death b /\ 0 <= b_ptot b /\ 0 <= b_pbirth b.

Lemma phase_c_loop_rel : forall l budget, budget == 0 -> Forall c_side l ->
  Forall2 (fun x c => let '(st, ps, sv, b) := x in exists q, q == 0 /\ c = phase_c st ps sv b q) l (phase_c_loop l budget).
Proof.
  induction l as [|[[[st ps] sv] b] l IH]; intros budget Hb H; cbn [phase_c_loop]; [constructor|].
  inversion H as [|? ? Hx Hl]; subst. cbn beta iota in Hx. destruct Hx as (H1 & H2 & H3 & H4 & H5).
  constructor.
  - exists budget. split; [exact Hb|reflexivity].
  - apply IH; [|exact Hl].
    pose proof (phase_c_spec st ps sv b budget Hb H1 H2 H3 H4 H5) as C. cbn zeta in C.
    destruct C as (_ & _ & _ & _ & C5 & _). exact C5.
Qed.

(* what month_step returns for the herd x of the list l *)
Definition herd_month (m : Q) (month0 : bool) (l : list (sstatic * sstate)) (x : sstatic * sstate) (r : species_month) : Prop :=
  exists remaining sv budget,
    0 <= remaining /\ budget == 0 /\
    m_a r = phase_a m x /\
    m_b r = phase_b month0 (fst x) (phase_a m x) (transfer_of (st_sp (fst x)) (als_of m l) 0) remaining /\
    m_c r = phase_c (fst x) (s_pop (snd x)) sv (m_b r) budget.

Lemma month_step_herds : forall month l feed grass, Forall herd_ok l ->
  let m := inject_Z (Z.of_nat month) in
  let rs := fst (fst (month_step month l feed grass)) in
  Forall2 (herd_month m (Nat.eqb month 0) l) l rs /\
  map m_b rs = fst (phase_b_loop (Nat.eqb month 0) (als_of m l) (als_of m l) (h0_of l)).
Proof.
  intros month l feed grass Hok m rs. subst rs. unfold month_step. fold m.
  pose proof (feed_chain_length (map mk_feeder l) grass feed) as Hfl. rewrite map_length in Hfl.
  destruct (feed_chain (map mk_feeder l) grass feed) as [[fos g'] f']. cbn [fst] in Hfl.
  change (map (fun x : sstatic * sstate => (fst x, phase_a m x)) l) with (als_of m l).
  change (hours_of_size Small (map fst l), hours_of_size Medium (map fst l), hours_of_size Large (map fst l)) with (h0_of l).
  set (month0 := Nat.eqb month 0).
  assert (Hst : Forall (fun x : sstatic * phaseA => static_ok (fst x)) (als_of m l)).
  { unfold als_of. apply Forall_map. eapply Forall_impl; [|exact Hok]. intros x [Hx _]. exact Hx. }
  assert (Hsts : Forall static_ok (map fst l)).
  { apply Forall_map. eapply Forall_impl; [|exact Hok]. intros x [Hx _]. exact Hx. }
  assert (Hh0 : hours_nonneg (h0_of l)).
  { unfold h0_of, hours_nonneg. cbn. repeat split; apply hours_of_size_nonneg; exact Hsts. }
  pose proof (phase_b_loop_rel month0 (als_of m l) (als_of m l) (h0_of l) Hst Hh0) as Hbs.
  destruct (phase_b_loop month0 (als_of m l) (als_of m l) (h0_of l)) as [bs hfin]. cbn [fst] in Hbs |- *.
  unfold als_of in Hbs at 2. apply F2_map_l in Hbs. cbn [fst snd] in Hbs.
  pose proof (F2_length _ _ _ Hbs) as Lbs.
  set (svs := map (fun xo : sstatic * sstate * fedout => s_pop (snd (fst xo)) - fo_fed (snd xo)) (combine l fos)).
  assert (Lsvs : List.length svs = List.length l).
  { subst svs. rewrite map_length, combine_length, Hfl. apply Nat.min_id. }
  (* index the month by the pairs (herd, its phase_b record) *)
  set (L := combine l bs).
  assert (LL : List.length L = List.length l) by (subst L; rewrite combine_length, Lbs; apply Nat.min_id).
  pose proof (F2_fst l bs Lbs) as Ffst. fold L in Ffst.
  pose proof (F2_snd l bs Lbs) as Fsnd. fold L in Fsnd.
  assert (HL : Forall (fun p : (sstatic * sstate) * phaseB => herd_ok (fst p) /\
                 exists remaining, 0 <= remaining /\
                   snd p = phase_b month0 (fst (fst p)) (phase_a m (fst p))
                                   (transfer_of (st_sp (fst (fst p))) (als_of m l) 0) remaining) L).
  { subst L. apply (F2_Forall_combine (fun x b => herd_ok x /\ exists remaining, 0 <= remaining /\
        b = phase_b month0 (fst x) (phase_a m x) (transfer_of (st_sp (fst x)) (als_of m l) 0) remaining)).
    apply F2_with_l; assumption. }
  assert (Fsvs : Forall2 (fun (_ : (sstatic * sstate) * phaseB) (_ : Q) => True) L svs) by (apply F2_len; congruence).
  assert (Ffos : Forall2 (fun (_ : (sstatic * sstate) * phaseB) (_ : fedout) => True) L fos) by (apply F2_len; congruence).
  assert (Fals : Forall2 (fun (p : (sstatic * sstate) * phaseB) (sa : sstatic * phaseA) => sa = (fst (fst p), phase_a m (fst p))) L (als_of m l)).
  { unfold als_of. apply F2_map_r. eapply Forall2_impl; [|exact Ffst]. intros p x ->. reflexivity. }
  assert (Fst : Forall2 (fun (p : (sstatic * sstate) * phaseB) (st : sstatic) => st = fst (fst p)) L (map fst l)).
  { apply F2_map_r. eapply Forall2_impl; [|exact Ffst]. intros p x ->. reflexivity. }
  assert (Fps : Forall2 (fun (p : (sstatic * sstate) * phaseB) (ps : Q) => ps = s_pop (snd (fst p))) L
                        (map (fun x : sstatic * sstate => s_pop (snd x)) l)).
  { apply F2_map_r. eapply Forall2_impl; [|exact Ffst]. intros p x ->. reflexivity. }
  set (z4 := zip4 (map fst l) (map (fun x : sstatic * sstate => s_pop (snd x)) l) svs bs).
  pose proof (F2_zip4 _ _ _ _ _ _ _ _ _ Fst Fps Fsvs Fsnd) as Hz4. fold z4 in Hz4.
  assert (Hside : Forall c_side z4).
  { eapply F2_Forall_r; [exact (F2_with_l _ _ _ _ HL Hz4)|].
    intros [x b0] [[[st ps] sv] b] (((Hsx & Hxs) & (rem & Hrem & Eb)) & (E1 & E2 & _ & E4)).
    cbn [fst snd] in *. subst st ps b b0. unfold c_side.
    destruct x as [stx sx]. cbn [fst snd] in *.
    pose proof (phase_b_spec month0 stx (phase_a m (stx, sx)) (transfer_of (st_sp stx) (als_of m l) 0) rem Hsx Hrem) as B.
    cbn zeta in B. destruct B as (_ & _ & Bo & _ & _ & _ & _ & _ & _ & _ & _ & Bpt & Bpb).
    destruct (phase_a_nonneg m stx sx Hsx Hxs) as ((P0 & _) & _).
    destruct Hsx as (Hh & _ & _ & Hd & Hsv & _).
    repeat split; try assumption. rewrite Bo. apply Qmult_le_0_compat; assumption. }
  pose proof (phase_c_loop_rel z4 hk_hours_total (Qeq_refl 0) Hside) as Hcs.
  pose proof (F2_trans _ _ _ _ _ Hz4 Hcs) as Hcs'.
  pose proof (F2_combine _ _ _ _ _ Hcs' Fsvs) as Hcomb.
  pose proof (F2_zip4 _ _ _ _ _ _ _ _ _ Ffos Fals Fsnd Hcomb) as Hall.
  split.
  - apply (F2_uncombine _ l bs _ Lbs). fold L. apply F2_map_r.
    eapply Forall2_impl; [|exact (F2_with_l _ _ _ _ HL Hall)].
    intros [x b0] [[[fo sa] b] [c sv']] H. cbn [fst snd] in H.
    destruct H as ((_ & (rem & Hrem & Eb)) & (_ & Esa & Eb2 & (Hc & _))).
    destruct Hc as (q0 & H1 & H2). destruct q0 as [[[st ps] sv] b'].
    destruct H1 as (E1 & E2 & _ & E4). destruct H2 as (q & Hq & Ec).
    cbn [fst snd] in *. subst sa st ps b' b. unfold herd_month. cbn [m_a m_b m_c fst snd].
    exists rem, sv, q. repeat split; try assumption.
  - rewrite map_map.
    rewrite (map_ext _ (fun q : fedout * (sstatic * phaseA) * phaseB * (phaseC * Q) => let '(_, _, z, _) := q in z)).
    + apply zip4_third.
      * congruence.
      * unfold als_of. rewrite map_length. congruence.
      * rewrite combine_length, (F2_length _ _ _ Hcs), (F2_length _ _ _ Hz4), LL, Lsvs, Lbs. apply Nat.min_id.
    + intros [[[fo sa] b] [c sv']]. reflexivity.
Qed.

(* ---- what holds for every herd of the list in the flows month_step returns *)
Definition herd_conclusions (m : Q) (l : list (sstatic * sstate)) (x : sstatic * sstate) (r : species_month) : Prop :=
  let st := fst x in
  let s := snd x in
  let a := m_a r in
  let b := m_b r in
  let c := m_c r in
  let tr := transfer_of (st_sp st) (als_of m l) 0 in
  let ledger := s_pop s + a_births a + (if st_milk st then 0 else tr) - (if st_milk st then a_ret a else 0)
                - b_other_death b - b_slaughter b - c_starve_death c - c_hk_healthy c - c_hk_starving c in
  let available := s_pop s - (b_other_death b + (if st_milk st then a_ret a else 0)) + b_additive b in
  a = phase_a m x /\
  ((0 <= ledger -> c_pop c == ledger) /\ (ledger <= 0 -> c_pop c == 0)) /\
  (b_transfer b = (if st_milk st then - tr else tr) /\
   b_additive b = (if st_milk st then a_births a else a_births a + tr)) /\
  (0 <= b_slaughter b /\ (0 <= available -> b_slaughter b <= available) /\ (available < 0 -> b_slaughter b == 0) /\
   (st_target st <= available -> st_target st <= available - b_slaughter b) /\
   (available < st_target st -> b_slaughter b == 0)) /\
  (0 <= a_births a /\ 0 <= a_ret a /\ 0 <= b_other_death b /\ 0 <= c_starve_death c /\
   c_hk_healthy c == 0 /\ c_hk_starving c == 0 /\ c_hk_other c == 0) /\
  state_ok (next_state r).

Lemma herd_month_conclusions : forall m month0 l x r, herd_ok x -> herd_month m month0 l x r -> herd_conclusions m l x r.
Proof.
  intros m month0 l [st s] r [Hst Hs] (rem & sv & q & Hrem & Hq & Ea & Eb & Ec).
  cbn [fst snd] in *.
  destruct (phase_a_nonneg m st s Hst Hs) as (As & Ap & Ab & _ & Ar & _). cbn zeta in *.
  set (a := phase_a m (st, s)) in *.
  set (tr := transfer_of (st_sp st) (als_of m l) 0) in *.
  pose proof (phase_b_spec month0 st a tr rem Hst Hrem) as B. cbn zeta in B.
  destruct As as (P0 & _).
  pose proof (ledger_one month0 st a tr rem sv q Hq Hst Hrem P0) as L. cbn zeta in L.
  set (b := phase_b month0 st a tr rem) in *.
  destruct B as (Ba & Bt & Bo & Bs & Bp & B1 & B2 & T1 & T2 & _ & _ & Bpt & Bpb).
  assert (Hod : 0 <= b_other_death b).
  { rewrite Bo. destruct Hst as (_ & _ & _ & Hd & _). apply Qmult_le_0_compat; assumption. }
  assert (Hh : 0 < st_hours st) by apply Hst.
  assert (Hsv : 0 <= st_starv st) by apply Hst.
  assert (Ht : 0 <= st_target st) by apply Hst.
  pose proof (phase_c_spec st (s_pop (a_state a)) sv b q Hq Hh Hsv Hod Bpt Bpb) as C. cbn zeta in C.
  set (c := phase_c st (s_pop (a_state a)) sv b q) in *.
  destruct C as (C1 & C2 & C3 & _ & _ & C6 & _ & _ & _ & _ & _ & C12 & C13).
  destruct L as (L1 & L2 & L3).
  unfold herd_conclusions. cbn [fst snd]. cbn zeta.
  rewrite Ec, Eb, Ea. fold a. fold tr. fold b. rewrite <- Ap. fold c.
  split; [reflexivity|]. split; [split; assumption|]. split; [split; assumption|].
  split.
  { rewrite Ba in *. split; [exact Bs|]. split; [|split; [|split]].
    - intro H. specialize (B1 H). lra.
    - intro H. apply B2. exact H.
    - intro H.
      assert (H0 : 0 <= s_pop (a_state a) - (b_other_death b + (if st_milk st then a_ret a else 0)) +
                        (if st_milk st then a_births a else a_births a + tr)) by lra.
      specialize (B1 H0). specialize (T1 H). lra.
    - exact T2. }
  split; [repeat split; assumption|].
  unfold next_state, state_ok. cbn [s_pop s_sl s_ptot s_pbirth].
  rewrite Ec, Eb. fold a. fold tr. fold b. rewrite <- Ap. fold c.
  repeat split; assumption.
Qed.

Lemma month_step_conclusions : forall month l feed grass, Forall herd_ok l ->
  Forall2 (herd_conclusions (inject_Z (Z.of_nat month)) l) l (fst (fst (month_step month l feed grass))).
Proof.
  intros month l feed grass Hok.
  destruct (month_step_herds month l feed grass Hok) as [H _]. cbn zeta in H.
  eapply Forall2_impl; [|exact (F2_with_l _ _ _ _ Hok H)].
  intros x r [Hx Hr]. eapply herd_month_conclusions; eassumption.
Qed.

(* ---- the state handed to the next month, and the iteration over months *)
Definition step_states (month : nat) (l : list (sstatic * sstate)) (feed grass : Q) : list (sstatic * sstate) :=
  combine (map fst l) (map next_state (fst (fst (month_step month l feed grass)))).

Fixpoint iterate_months (n : nat) (month : nat) (feed grass : nat -> Q) (l : list (sstatic * sstate))
  : list (sstatic * sstate) :=
  match n with
  | O => l
  | S n' => iterate_months n' (S month) feed grass (step_states month l (feed month) (grass month))
  end.

Lemma step_states_ok : forall month l feed grass, Forall herd_ok l -> Forall herd_ok (step_states month l feed grass).
Proof.
  intros month l feed grass Hok. unfold step_states.
  pose proof (F2_with_l _ _ _ _ Hok (month_step_conclusions month l feed grass Hok)) as H.
  induction H as [|x r l' rs' [Hx Hr] _ IH]; cbn [map combine]; constructor; [|exact IH].
  split; cbn [fst snd]; [apply Hx|apply Hr].
Qed.

Lemma step_states_statics : forall month l feed grass, Forall herd_ok l ->
  map fst (step_states month l feed grass) = map fst l.
Proof.
  intros month l feed grass Hok. unfold step_states.
  pose proof (F2_length _ _ _ (month_step_conclusions month l feed grass Hok)) as Hl.
  set (rs := fst (fst (month_step month l feed grass))) in *. clearbody rs. clear Hok.
  revert rs Hl. induction l as [|x l IH]; intros [|r rs] Hl; cbn in *; try discriminate; try reflexivity.
  f_equal. apply IH. congruence.
Qed.

Lemma iterate_months_ok : forall n month feed grass l, Forall herd_ok l -> Forall herd_ok (iterate_months n month feed grass l).
Proof.
  induction n as [|n IH]; intros month feed grass l Hok; cbn [iterate_months]; [exact Hok|].
  apply IH. apply step_states_ok. exact Hok.
Qed.

(* ---- initial state (set_species_slaughter_attributes + append_month_zero):
        population[0] = head count, slaughter[0] = initial_slaughter,
        pregnant_animals_total[0] = birth_ratio * births_baseline / animals_per_pregnancy * gestation,
        pregnant_animals_birthing_this_month[0] = that / gestation *)
Definition init_state (pop initial_slaughter births_baseline ratio perpreg gest pfrac : Q) : sstate :=
  let ptot := ratio * births_baseline / perpreg * gest in
  {| s_pop := pop; s_sl := initial_slaughter; s_ptot := ptot; s_pbirth := ptot / gest; s_pfrac := pfrac |}.

Lemma init_state_ok_lemma : forall pop sl bb ratio perpreg gest pfrac,
  0 <= pop -> 0 <= sl -> 0 <= bb -> 0 < ratio -> 0 < perpreg -> 0 < gest ->
  state_ok (init_state pop sl bb ratio perpreg gest pfrac).
Proof.
  intros pop sl bb ratio perpreg gest pfrac Hp Hs Hb Hr Hpp Hg. unfold init_state, state_ok. cbn [s_pop s_sl s_ptot s_pbirth].
  assert (H1 : 0 <= ratio * bb) by (apply Qmult_le_0_compat; lra).
  assert (H2 : 0 <= ratio * bb / perpreg) by (apply div_nonneg; assumption).
  assert (H3 : 0 <= ratio * bb / perpreg * gest) by (apply Qmult_le_0_compat; lra).
  repeat split; try assumption. apply div_nonneg; assumption.
Qed.

Lemma month_step_hours : forall month l feed grass, Forall herd_ok l ->
  let m := inject_Z (Z.of_nat month) in
  forall z, hours_used z (als_of m l) (map m_b (fst (fst (month_step month l feed grass)))) <= hours_of_size z (map fst l).
Proof.
  intros month l feed grass Hok m z.
  destruct (month_step_herds month l feed grass Hok) as [_ H]. cbn zeta in H. fold m in H. rewrite H.
  assert (Hst : Forall (fun x : sstatic * phaseA => static_ok (fst x)) (als_of m l)).
  { unfold als_of. apply Forall_map. eapply Forall_impl; [|exact Hok]. intros x [Hx _]. exact Hx. }
  assert (Hsts : Forall static_ok (map fst l)).
  { apply Forall_map. eapply Forall_impl; [|exact Hok]. intros x [Hx _]. exact Hx. }
  assert (Hh0 : hours_nonneg (h0_of l)).
  { unfold h0_of, hours_nonneg. cbn. repeat split; apply hours_of_size_nonneg; exact Hsts. }
  pose proof (hours_used_le (Nat.eqb month 0) (als_of m l) (als_of m l) (h0_of l) Hst Hh0 z) as P.
  unfold h0_of in P at 2. destruct z; exact P.
Qed.

Lemma iterate_months_statics : forall n month feed grass l, Forall herd_ok l ->
  map fst (iterate_months n month feed grass l) = map fst l.
Proof.
  induction n as [|n IH]; intros month feed grass l Hok; cbn [iterate_months]; [reflexivity|].
  rewrite IH; [apply step_states_statics; exact Hok|apply step_states_ok; exact Hok].
Qed.
