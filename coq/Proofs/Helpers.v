(* C18 placeholder, filled in below *)
