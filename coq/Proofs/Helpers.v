(* C18 - lemmas about the hand-off helpers of Model/Helpers.v (statements collected in Props/C18.v). *)
From Coq Require Import QArith Qminmax Lqa Lia List Bool String.
From Allfed Require Import Base.QList Model.Helpers.
Import ListNotations.
Open Scope Q_scope.


Definition nonneg (l : list Q) : Prop := Forall (fun x => 0 <= x) l.

Lemma nonneg_qsum l : nonneg l -> 0 <= qsum l.
Proof. induction 1; simpl; lra. Qed.

Lemma nonneg_nth l : nonneg l -> forall j, 0 <= nth j l 0.
Proof. induction 1; intros [|j]; simpl; try lra; auto. Qed.

(* ---------------- consume_all *)
Lemma consume_length : forall fs rem, List.length (consume_all rem fs) = List.length fs.
Proof. induction fs; intros; simpl; auto. Qed.

Lemma consume_sum : forall fs rem, nonneg fs -> 0 <= rem ->
  qsum (consume_all rem fs) == Qmin rem (qsum fs).
Proof.
  induction fs as [|f fs IH]; intros rem Hn Hr; simpl.
  - destruct (Q.min_spec rem 0) as [[H E]|[H E]]; rewrite E; lra.
  - inversion Hn as [|? ? Hf Hfs]; subst.
    pose proof (nonneg_qsum fs Hfs) as Hs.
    destruct (pymin_spec f rem) as [[H E]|[H E]]; rewrite E.
    + rewrite IH by (auto; lra).
      destruct (Q.min_spec (rem - f) (qsum fs)) as [[H1 E1]|[H1 E1]]; rewrite E1;
      destruct (Q.min_spec rem (f + qsum fs)) as [[H2 E2]|[H2 E2]]; rewrite E2; lra.
    + rewrite IH by (auto; lra).
      destruct (Q.min_spec (rem - rem) (qsum fs)) as [[H1 E1]|[H1 E1]]; rewrite E1;
      destruct (Q.min_spec rem (f + qsum fs)) as [[H2 E2]|[H2 E2]]; rewrite E2; lra.
Qed.

Lemma consume_bounds : forall fs rem, nonneg fs -> 0 <= rem ->
  forall j, 0 <= nth j (consume_all rem fs) 0 /\ nth j (consume_all rem fs) 0 <= nth j fs 0
            /\ nth j (consume_all rem fs) 0 <= rem.
Proof.
  induction fs as [|f fs IH]; intros rem Hn Hr j; simpl.
  - destruct j; simpl; lra.
  - inversion Hn as [|? ? Hf Hfs]; subst.
    destruct (pymin_spec f rem) as [[H E]|[H E]]; rewrite E; destruct j; simpl; try lra.
    + specialize (IH (rem - f) Hfs ltac:(lra) j). lra.
    + specialize (IH (rem - rem) Hfs ltac:(lra) j). lra.
Qed.

(* once nothing remains, nothing more is taken *)
Lemma consume_zero : forall fs rem, nonneg fs -> rem == 0 -> forall j, nth j (consume_all rem fs) 0 == 0.
Proof.
  induction fs as [|f fs IH]; intros rem Hn Hr j; simpl.
  - destruct j; reflexivity.
  - inversion Hn as [|? ? Hf Hfs]; subst.
    destruct (pymin_spec f rem) as [[H E]|[H E]]; rewrite E; destruct j; simpl; try lra.
    + apply IH; auto; lra.
    + apply IH; auto; lra.
Qed.

Lemma consume_priority : forall fs rem, nonneg fs -> 0 <= rem ->
  forall j, nth j (consume_all rem fs) 0 < nth j fs 0 ->
  forall k, (j < k)%nat -> nth k (consume_all rem fs) 0 == 0.
Proof.
  induction fs as [|f fs IH]; intros rem Hn Hr j Hj k Hk.
  - destruct j; simpl in Hj; lra.
  - inversion Hn as [|? ? Hf Hfs]; subst. simpl in *.
    destruct (pymin_spec f rem) as [[H E]|[H E]]; rewrite E in *.
    + destruct j; simpl in Hj; [lra|]. destruct k; [lia|]. simpl.
      apply (IH (rem - f) Hfs ltac:(lra) j Hj k). lia.
    + destruct k; [lia|]. simpl. apply consume_zero; auto; lra.
Qed.

Lemma needs_cap_min K T pf : needs_cap K T pf == K * (Qmin pf T / 100).
Proof.
  unfold needs_cap. destruct (Qltb_spec T pf).
  - rewrite Q.min_r by lra. reflexivity.
  - rewrite Q.min_l by lra. reflexivity.
Qed.


(* ---------------- series level of the min-needs hand-off *)
Definition r1_nonneg (r : r1_eaten) : Prop :=
  nonneg (e_fish r) /\ nonneg (e_meat r) /\ nonneg (e_milk r) /\ nonneg (e_greenhouse r) /\
  nonneg (e_immediate_oc r) /\ nonneg (e_new_stored_oc r) /\ nonneg (e_stored_food r) /\
  nonneg (e_scp r) /\ nonneg (e_cell_sugar r) /\ nonneg (e_seaweed r).

(* what round 1 ate of food j (position in the priority order) in month m *)
Definition eaten (r : r1_eaten) (j m : nat) : Q := nth j (month_foods r m) 0.
(* what the hand-off reserves of food j in month m *)
Definition handoff (cap : Q) (r : r1_eaten) (N j m : nat) : Q := nth m (column (min_needs_rows cap r N) j) 0.

Lemma month_foods_explicit r m : month_foods r m =
  [nth m (e_fish r) 0; nth m (e_meat r) 0; nth m (e_milk r) 0; nth m (e_greenhouse r) 0;
   nth m (e_immediate_oc r) 0 + nth m (e_new_stored_oc r) 0; nth m (e_stored_food r) 0;
   nth m (e_scp r) 0; nth m (e_cell_sugar r) 0; nth m (e_seaweed r) 0].
Proof. reflexivity. Qed.

Lemma month_foods_nonneg r m : r1_nonneg r -> nonneg (month_foods r m).
Proof.
  intros (A & B & C & D & E & F & G & H & I & J). rewrite month_foods_explicit.
  pose proof (nonneg_nth _ A m). pose proof (nonneg_nth _ B m). pose proof (nonneg_nth _ C m).
  pose proof (nonneg_nth _ D m). pose proof (nonneg_nth _ E m). pose proof (nonneg_nth _ F m).
  pose proof (nonneg_nth _ G m). pose proof (nonneg_nth _ H m). pose proof (nonneg_nth _ I m).
  pose proof (nonneg_nth _ J m).
  repeat constructor; lra.
Qed.

Lemma month_foods_length r m : List.length (month_foods r m) = 9%nat.
Proof. reflexivity. Qed.

Lemma handoff_eq cap r N j m : (m < N)%nat -> handoff cap r N j m = nth j (consume_all cap (month_foods r m)) 0.
Proof.
  intro H. unfold handoff, column, min_needs_rows. rewrite map_map.
  rewrite nth_indep with (d' := nth j (consume_all cap (month_foods r 0)) 0)
    by (rewrite map_length, seq_length; exact H).
  rewrite (map_nth (fun x => nth j (consume_all cap (month_foods r x)) 0) (seq 0 N) 0%nat m).
  now rewrite seq_nth.
Qed.

Lemma handoff_total cap r N m : (m < N)%nat -> r1_nonneg r -> 0 <= cap ->
  qsum (tab 9 (fun j => handoff cap r N j m)) == Qmin cap (qsum (month_foods r m)).
Proof.
  intros Hm Hr Hc.
  rewrite (qsum_tab_ext 9 _ (fun j => nth j (consume_all cap (month_foods r m)) 0))
    by (intros j _; rewrite handoff_eq by exact Hm; reflexivity).
  replace 9%nat with (List.length (consume_all cap (month_foods r m)))
    by (rewrite consume_length; apply month_foods_length).
  rewrite qsum_tab_nth. apply consume_sum; [apply month_foods_nonneg; exact Hr|exact Hc].
Qed.

Lemma list_eq_tab (l : list Q) : l = tab (List.length l) (fun m => nth m l 0).
Proof.
  apply nth_ext with (d := 0) (d' := 0); [now rewrite tab_length|].
  intros n Hn. now rewrite nth_tab.
Qed.

Lemma column_as_handoff cap r N j :
  column (min_needs_rows cap r N) j = tab N (fun m => handoff cap r N j m).
Proof.
  rewrite (list_eq_tab (column (min_needs_rows cap r N) j)) at 1.
  unfold column at 1, min_needs_rows at 1. rewrite !map_length, seq_length. reflexivity.
Qed.

Lemma min_needs_gen_ok_inv t K T pf Kc N r d : min_needs_gen t K T pf Kc N r = Ok d ->
  d = combine (map fst order_table) (map (column (min_needs_rows (needs_cap K T pf) r N)) (seq 0 9)).
Proof.
  unfold min_needs_gen. destruct (Nat.ltb (min_len r) N); [discriminate|].
  match goal with |- (if ?c then _ else _) = _ -> _ => destruct c end; [|discriminate].
  intro H. injection H as <-. reflexivity.
Qed.

Lemma min_needs_ok_inv K T pf Kc N r d : min_needs K T pf Kc N r = Ok d ->
  d = combine (map fst order_table) (map (column (min_needs_rows (needs_cap K T pf) r N)) (seq 0 9)).
Proof.
  unfold min_needs, min_needs_gen. destruct (Nat.ltb (min_len r) N); [discriminate|].
  match goal with |- (if ?c then _ else _) = _ -> _ => destruct c end; [|discriminate].
  intro H. injection H as <-. reflexivity.
Qed.


(* ---------------- fill_negatives_with_positives *)
Definition unchanged_or_shrunk (neg : nat) (a r : list Q) : Prop :=
  forall j, j <> neg -> (nth j a 0 <= 0 -> nth j r 0 == nth j a 0) /\ (0 <= nth j a 0 -> 0 <= nth j r 0 <= nth j a 0).

Ltac split6 := split; [|split; [|split; [|split; [|split]]]].

Lemma fix_one_cons neg i rest arr : fix_one neg (i :: rest) arr =
  if Nat.eqb i neg || Qle_bool (nth i arr 0) 0 then fix_one neg rest arr
  else
    let adj := pymin (- nth neg arr 0) (nth i arr 0) in
    let arr1 := upd arr neg (Qred (nth neg arr 0 + adj)) in
    let arr2 := upd arr1 i (Qred (nth i arr1 0 - adj)) in
    if Qeq_bool (nth neg arr2 0) 0 then arr2 else fix_one neg rest arr2.
Proof. reflexivity. Qed.

Lemma fix_one_spec neg : forall idxs arr,
  (neg < List.length arr)%nat -> (forall i, In i idxs -> (i < List.length arr)%nat) -> nth neg arr 0 <= 0 ->
  let r := fix_one neg idxs arr in
  List.length r = List.length arr /\ qsum r == qsum arr /\ nth neg r 0 <= 0 /\ nth neg arr 0 <= nth neg r 0 /\
  unchanged_or_shrunk neg arr r /\
  (nth neg r 0 == 0 \/ forall j, In j idxs -> j <> neg -> nth j r 0 <= 0).
Proof.
  induction idxs as [|i rest IH]; intros arr Hneg Hidx Hle; [simpl|cbv zeta; rewrite fix_one_cons].
  - split6; try reflexivity; try lra.
    + intros j _. split; intro; lra.
    + right. intros j [].
  - assert (Hrest : forall i0, In i0 rest -> (i0 < List.length arr)%nat) by (intros; apply Hidx; now right).
    destruct (Nat.eqb i neg || Qle_bool (nth i arr 0) 0) eqn:Eskip.
    + (* skipped *)
      specialize (IH arr Hneg Hrest Hle). simpl in IH.
      destruct IH as (L & S & N1 & N2 & U & D).
      split6; auto.
      destruct D as [D|D]; [now left|right].
      intros j [<-|Hj] Hjn; [|now apply D].
      apply orb_true_iff in Eskip. destruct Eskip as [E|E].
      * apply Nat.eqb_eq in E. congruence.
      * apply Qle_bool_iff in E. destruct (U i Hjn) as [U1 _]. rewrite (U1 E). exact E.
    + apply orb_false_iff in Eskip. destruct Eskip as [E1 E2].
      apply Nat.eqb_neq in E1.
      assert (Hpos : 0 < nth i arr 0).
      { destruct (Qle_bool_spec (nth i arr 0) 0); [discriminate|lra]. }
      assert (Hi : (i < List.length arr)%nat) by (apply Hidx; now left).
      set (adj := pymin (- nth neg arr 0) (nth i arr 0)).
      set (arr1 := upd arr neg (Qred (nth neg arr 0 + adj))).
      set (arr2 := upd arr1 i (Qred (nth i arr1 0 - adj))).
      assert (Hadj : 0 <= adj /\ adj <= - nth neg arr 0 /\ adj <= nth i arr 0 /\
                     (adj == - nth neg arr 0 \/ adj == nth i arr 0)).
      { unfold adj. destruct (pymin_spec (- nth neg arr 0) (nth i arr 0)) as [[H ->]|[H ->]].
        - split; [lra|split; [lra|split; [lra|left; reflexivity]]].
        - split; [lra|split; [lra|split; [lra|right; reflexivity]]]. }
      destruct Hadj as (A0 & A1 & A2 & A3).
      assert (L1 : List.length arr1 = List.length arr) by (unfold arr1; apply upd_length).
      assert (L2 : List.length arr2 = List.length arr) by (unfold arr2; rewrite upd_length; exact L1).
      assert (Ni1 : nth i arr1 0 = nth i arr 0) by (unfold arr1; apply nth_upd_other; congruence).
      assert (Nneg2 : nth neg arr2 0 == nth neg arr 0 + adj).
      { unfold arr2. rewrite nth_upd_other by congruence. unfold arr1.
        rewrite nth_upd_same by exact Hneg. apply Qred_correct. }
      assert (Ni2 : nth i arr2 0 == nth i arr 0 - adj).
      { unfold arr2. rewrite nth_upd_same by (rewrite L1; exact Hi). rewrite Qred_correct, Ni1. reflexivity. }
      assert (No2 : forall j, j <> neg -> j <> i -> nth j arr2 0 = nth j arr 0).
      { intros j J1 J2. unfold arr2. rewrite nth_upd_other by congruence. unfold arr1.
        apply nth_upd_other; congruence. }
      assert (S2 : qsum arr2 == qsum arr).
      { unfold arr2. rewrite qsum_upd by (rewrite L1; exact Hi). rewrite Qred_correct, Ni1.
        unfold arr1. rewrite qsum_upd by exact Hneg. rewrite Qred_correct. ring. }
      assert (U2 : unchanged_or_shrunk neg arr arr2).
      { intros j Jn. destruct (Nat.eq_dec j i) as [->|Ji].
        - rewrite Ni2. split; intro; lra.
        - rewrite (No2 j Jn Ji). split; intro; lra. }
      cbv zeta. fold adj. fold arr1. fold arr2.
      destruct (Qeq_bool (nth neg arr2 0) 0) eqn:Ez.
      * apply Qeq_bool_iff in Ez.
        split6; auto; try (rewrite Nneg2; lra); try (left; exact Ez).
      * assert (Hneq : ~ nth neg arr2 0 == 0) by (intro K; apply Qeq_bool_iff in K; congruence).
        assert (Hfull : adj == nth i arr 0).
        { destruct A3 as [A3|A3]; [|exact A3]. exfalso. apply Hneq. rewrite Nneg2, A3. ring. }
        specialize (IH arr2). rewrite L2 in IH. specialize (IH Hneg Hrest ltac:(rewrite Nneg2; lra)).
        simpl in IH. destruct IH as (L & S & N1 & N2 & U & D).
        split6; auto.
        -- rewrite S. exact S2.
        -- rewrite Nneg2 in N2. lra.
        -- intros j Jn. destruct (U j Jn) as [Ua Ub]. destruct (U2 j Jn) as [Va Vb]. split.
           ++ intro Hj. rewrite Ua; [apply Va; exact Hj|]. rewrite (Va Hj). exact Hj.
           ++ intro Hj. specialize (Vb Hj). specialize (Ub ltac:(lra)). lra.
        -- destruct D as [D|D]; [now left|right].
           intros j [<-|Hj] Hjn; [|now apply D].
           destruct (U i Hjn) as [Ua _]. rewrite Ua; rewrite Ni2; lra.
Qed.


Lemma fix_one_full neg arr : (neg < List.length arr)%nat -> nth neg arr 0 <= 0 -> 0 <= qsum arr ->
  nth neg (fix_one neg (down (List.length arr)) arr) 0 == 0.
Proof.
  intros Hn Hle Hs.
  destruct (fix_one_spec neg (down (List.length arr)) arr Hn) as (L & S & N1 & N2 & U & D); auto.
  { intros i Hi. unfold down in Hi. apply in_rev in Hi. apply in_seq in Hi. lia. }
  destruct D as [D|D]; [exact D|].
  set (r := fix_one neg (down (List.length arr)) arr) in *.
  assert (Hall : forall m, (m < List.length r)%nat -> nth m r 0 <= 0).
  { intros m Hm. destruct (Nat.eq_dec m neg) as [->|Hne]; [exact N1|].
    apply D; [|exact Hne]. apply In_down. lia. }
  pose proof (qsum_nonpos_le r Hall neg ltac:(lia)) as Hq.
  apply Qle_antisym; [exact N1|]. rewrite S in Hq. lra.
Qed.

Definition fill_from (negs : list nat) (arr : list Q) : list Q :=
  fold_left (fun a neg => fix_one neg (down (List.length a)) a) negs arr.

Lemma fill_from_spec : forall negs arr,
  (forall n, In n negs -> (n < List.length arr)%nat /\ nth n arr 0 <= 0) ->
  let r := fill_from negs arr in
  List.length r = List.length arr /\ qsum r == qsum arr /\
  (forall j, 0 <= nth j arr 0 -> 0 <= nth j r 0 <= nth j arr 0) /\
  (forall j, nth j arr 0 <= 0 -> nth j arr 0 <= nth j r 0 <= 0) /\
  (0 <= qsum arr -> forall j, In j negs \/ 0 <= nth j arr 0 -> 0 <= nth j r 0).
Proof.
  induction negs as [|n rest IH]; intros arr Hpre; simpl.
  - split; [reflexivity|]. split; [reflexivity|]. split; [intros; lra|]. split; [intros; lra|].
    intros _ j [[]|H]; exact H.
  - destruct (Hpre n (or_introl eq_refl)) as [Hn Hle].
    destruct (fix_one_spec n (down (List.length arr)) arr Hn) as (L & S & N1 & N2 & U & _); auto.
    { intros i Hi. unfold down in Hi. apply in_rev in Hi. apply in_seq in Hi. lia. }
    set (arr' := fix_one n (down (List.length arr)) arr) in *.
    assert (Hpre' : forall n0, In n0 rest -> (n0 < List.length arr')%nat /\ nth n0 arr' 0 <= 0).
    { intros n0 Hin. destruct (Hpre n0 (or_intror Hin)) as [A B]. split; [lia|].
      destruct (Nat.eq_dec n0 n) as [->|Hne]; [exact N1|].
      destruct (U n0 Hne) as [Ua _]. rewrite (Ua B). exact B. }
    specialize (IH arr' Hpre'). simpl in IH. destruct IH as (L' & S' & P' & M' & F').
    assert (Hpos : forall j, 0 <= nth j arr 0 -> 0 <= nth j arr' 0 <= nth j arr 0).
    { intros j Hj. destruct (Nat.eq_dec j n) as [->|Hne]; [lra|]. destruct (U j Hne) as [_ Ub]. auto. }
    assert (Hneg : forall j, nth j arr 0 <= 0 -> nth j arr 0 <= nth j arr' 0 <= 0).
    { intros j Hj. destruct (Nat.eq_dec j n) as [->|Hne]; [lra|]. destruct (U j Hne) as [Ua _].
      rewrite (Ua Hj). lra. }
    split; [lia|]. split; [rewrite S'; exact S|].
    split. { intros j Hj. specialize (Hpos j Hj). specialize (P' j ltac:(lra)). lra. }
    split. { intros j Hj. specialize (Hneg j Hj). specialize (M' j ltac:(lra)). lra. }
    intros Hs j Hj. assert (Hs' : 0 <= qsum arr') by (rewrite S; exact Hs).
    apply (F' Hs'). destruct Hj as [[<-|Hin]|Hj].
    + right. pose proof (fix_one_full n arr Hn Hle Hs) as Z. fold arr' in Z. lra.
    + now left.
    + right. apply Hpos; exact Hj.
Qed.

Lemma neg_indices_spec arr n : In n (neg_indices arr) <-> ((n < List.length arr)%nat /\ nth n arr 0 < 0).
Proof.
  unfold neg_indices. rewrite filter_In, in_seq. split.
  - intros [A B]. split; [lia|]. destruct (Qltb_spec (nth n arr 0) 0); [assumption|discriminate].
  - intros [A B]. split; [lia|]. destruct (Qltb_spec (nth n arr 0) 0); [reflexivity|contradiction].
Qed.

Lemma fill_is_fill_from arr : fill arr = fill_from (neg_indices arr) arr.
Proof. reflexivity. Qed.

Lemma fill_spec arr :
  List.length (fill arr) = List.length arr /\ qsum (fill arr) == qsum arr /\
  (forall j, 0 <= nth j arr 0 -> 0 <= nth j (fill arr) 0 <= nth j arr 0) /\
  (forall j, nth j arr 0 <= 0 -> nth j arr 0 <= nth j (fill arr) 0 <= 0) /\
  (0 <= qsum arr -> forall j, 0 <= nth j (fill arr) 0).
Proof.
  rewrite fill_is_fill_from.
  destruct (fill_from_spec (neg_indices arr) arr) as (L & S & P & M & F).
  { intros n Hn. apply neg_indices_spec in Hn. split; [tauto|lra]. }
  split; [exact L|]. split; [exact S|]. split; [exact P|]. split; [exact M|].
  intros Hs j. apply (F Hs).
  destruct (Qlt_le_dec (nth j arr 0) 0) as [Hlt|Hge]; [left|now right].
  apply neg_indices_spec. split; [|exact Hlt].
  destruct (Nat.lt_ge_cases j (List.length arr)) as [H|H]; [exact H|].
  rewrite nth_overflow in Hlt by lia. lra.
Qed.


(* ---------------- meat re-timing *)
Lemma forallb_nth (p : Q -> bool) l : (forall j, (j < List.length l)%nat -> p (nth j l 0) = true) -> forallb p l = true.
Proof.
  intro H. apply forallb_forall. intros x Hx. destruct (In_nth l x 0 Hx) as (j & Hj & <-). now apply H.
Qed.

Lemma qsum_tab_of_list l n : n = List.length l -> qsum (tab n (fun m => nth m l 0)) == qsum l.
Proof. intros ->. apply qsum_tab_nth. Qed.

Theorem redistribute_skip r1 r2 : qsum r2 < qsum r1 -> redistribute r1 r2 = Skip.
Proof. intro H. unfold redistribute. destruct (Qltb_spec (qsum r2) (qsum r1)); [reflexivity|contradiction]. Qed.

Theorem redistribute_ok r1 r2 :
  List.length r1 = List.length r2 -> nonneg r1 -> qsum r1 <= qsum r2 ->
  exists l, redistribute r1 r2 = Ok l /\ List.length l = List.length r2 /\ qsum l == qsum r2 /\
            forall m, (m < List.length r2)%nat -> nth m r1 0 <= nth m l 0 /\ 0 <= nth m l 0.
Proof.
  intros Hlen Hnn Hsum. unfold redistribute.
  destruct (Qltb_spec (qsum r2) (qsum r1)) as [C|_]; [lra|].
  rewrite Hlen, Nat.eqb_refl. simpl negb. cbv iota.
  set (n := List.length r2).
  set (diff := tab n (fun m => nth m r2 0 - nth m r1 0)).
  assert (Ld : List.length diff = n) by apply tab_length.
  assert (Sd : qsum diff == qsum r2 - qsum r1).
  { unfold diff. rewrite qsum_tab_minus. rewrite (qsum_tab_of_list r2 n eq_refl).
    rewrite (qsum_tab_of_list r1 n) by (unfold n; congruence). reflexivity. }
  destruct (fill_spec diff) as (Ls & Ss & _ & _ & Fs).
  assert (Hs0 : 0 <= qsum diff) by (rewrite Sd; lra).
  specialize (Fs Hs0).
  set (spd := fill diff) in *.
  assert (A1 : forallb (fun x => Qle_bool (- tol3) x) spd = true).
  { apply forallb_nth. intros j _. apply Qle_bool_iff. specialize (Fs j). unfold tol3. lra. }
  rewrite A1. simpl negb. cbv iota.
  set (adj := tab n (fun m => nth m spd 0 - nth m diff 0)).
  assert (Sa : qsum adj == 0).
  { unfold adj. rewrite qsum_tab_minus. rewrite (qsum_tab_of_list spd n) by (rewrite Ls; congruence).
    rewrite (qsum_tab_of_list diff n) by congruence. rewrite Ss. ring. }
  assert (A2 : Qle_bool (qabs (qsum adj)) tol3 = true).
  { apply Qle_bool_iff. unfold qabs. rewrite Sa. simpl. unfold tol3. lra. }
  rewrite A2. simpl negb. cbv iota.
  assert (Hadj : forall m, (m < n)%nat -> nth m adj 0 + nth m r2 0 == nth m r1 0 + nth m spd 0).
  { intros m Hm. unfold adj. rewrite nth_tab by exact Hm. unfold diff. rewrite nth_tab by exact Hm. ring. }
  assert (Hr1 : forall m, 0 <= nth m r1 0) by (apply nonneg_nth; exact Hnn).
  assert (A3 : forallb (fun x => Qle_bool (- tol3) x) (tab n (fun m => nth m adj 0 + nth m r2 0)) = true).
  { apply forallb_nth. intros j Hj. rewrite tab_length in Hj. rewrite nth_tab by exact Hj.
    apply Qle_bool_iff. rewrite (Hadj j Hj). specialize (Fs j). specialize (Hr1 j). unfold tol3. lra. }
  rewrite A3. simpl negb. cbv iota.
  eexists. split; [reflexivity|]. split; [apply tab_length|]. split.
  - rewrite qsum_tab_plus. rewrite (qsum_tab_of_list r2 n eq_refl).
    rewrite (qsum_tab_of_list adj n) by (unfold adj; now rewrite tab_length). rewrite Sa. ring.
  - intros m Hm. rewrite nth_tab by exact Hm.
    assert (E : nth m r2 0 + nth m adj 0 == nth m r1 0 + nth m spd 0) by (rewrite <- (Hadj m Hm); ring).
    rewrite E. specialize (Fs m). specialize (Hr1 m). lra.
Qed.

(* ---------------- increase_biofuels_then_feed (one month) *)
Lemma bump1_never_lowers b f inc maxb maxf avail :
  b <= fst (bump1 b f inc maxb maxf avail) /\ f <= snd (bump1 b f inc maxb maxf avail).
Proof.
  unfold bump1. cbv zeta. simpl fst; simpl snd.
  split.
  - match goal with |- _ <= _ + npmax 0 ?x => destruct (npmax_spec 0 x) as [[H ->]|[H ->]]; lra end.
  - match goal with |- _ <= _ + npmax 0 ?x => destruct (npmax_spec 0 x) as [[H ->]|[H ->]]; lra end.
Qed.

(* the clamped potential increase: non-negative, never beyond the ceiling, never beyond the requested increase *)
Lemma potential_spec x inc mx : let p := npmax 0 (npmin (x + inc) mx - x) in
  0 <= p /\ x + p <= Qmax x mx /\ x + p <= x + Qmax inc 0.
Proof.
  cbv zeta.
  destruct (npmin_spec (x + inc) mx) as [[H1 E1]|[H1 E1]]; rewrite E1;
  match goal with |- context [npmax 0 ?a] => destruct (npmax_spec 0 a) as [[H2 E2]|[H2 E2]]; rewrite E2 end;
  destruct (Q.max_spec x mx) as [[M1 M2]|[M1 M2]]; rewrite M2;
  destruct (Q.max_spec inc 0) as [[M3 M4]|[M3 M4]]; rewrite M4; repeat split; lra.
Qed.

(* feed: for ARBITRARY inputs *)
Lemma bump1_feed_ceiling b f inc maxb maxf avail :
  snd (bump1 b f inc maxb maxf avail) <= Qmax f maxf /\
  snd (bump1 b f inc maxb maxf avail) <= f + Qmax inc 0.
Proof.
  unfold bump1. cbv zeta. simpl snd.
  destruct (potential_spec f inc maxf) as (P0 & P1 & P2). cbv zeta in P0, P1, P2.
  set (pf := npmax 0 (npmin (f + inc) maxf - f)) in *.
  match goal with |- context [npmax 0 (npmin ?x pf)] =>
    destruct (npmin_spec x pf) as [[H1 E1]|[H1 E1]]; rewrite E1; clear E1;
    destruct (npmax_spec 0 x) as [[H2 E2]|[H2 E2]]; try rewrite E2;
    destruct (npmax_spec 0 pf) as [[H3 E3]|[H3 E3]]; try rewrite E3 end; split; lra.
Qed.

(* biofuel: for ARBITRARY inputs (any sign of the increase and of the availability, quantities already above
   their demand or not) *)
Lemma bump1_biofuel_ceiling_any b f inc maxb maxf avail :
  fst (bump1 b f inc maxb maxf avail) <= Qmax b maxb /\
  fst (bump1 b f inc maxb maxf avail) <= b + Qmax inc 0.
Proof.
  unfold bump1. cbv zeta. simpl fst.
  destruct (potential_spec b inc maxb) as (Pb0 & Pb1 & Pb2). cbv zeta in Pb0, Pb1, Pb2.
  destruct (potential_spec f inc maxf) as (Pf0 & _ & _). cbv zeta in Pf0.
  set (pb := npmax 0 (npmin (b + inc) maxb - b)) in *.
  set (pf := npmax 0 (npmin (f + inc) maxf - f)) in *.
  set (tp := pb + pf).
  set (allowed := if Qle_bool (tp + b + f) avail then tp else avail - b - f).
  assert (Al : allowed <= tp).
  { unfold allowed. destruct (Qle_bool_spec (tp + b + f) avail); lra. }
  set (d := tp + regulariser).
  assert (Dp : 0 < d) by (unfold d, tp, regulariser; lra).
  set (prop := pb / d).
  assert (Pr : prop * d == pb) by (unfold prop; field; lra).
  assert (Pr0 : 0 <= prop).
  { unfold prop, Qdiv. apply Qmult_le_0_compat; [lra|]. apply Qlt_le_weak, Qinv_lt_0_compat, Dp. }
  assert (Ab : allowed * prop <= pb).
  { assert (allowed * prop <= d * prop).
    { apply Qmult_le_compat_r; [unfold d, regulariser; lra|exact Pr0]. }
    rewrite <- Pr. lra. }
  destruct (npmax_spec 0 (allowed * prop)) as [[H ->]|[H ->]]; split; lra.
Qed.

(* nothing eaten and nothing requested: feed stays 0, whatever the ceilings and the availability *)
Lemma bump1_no_request b f inc maxb maxf avail : f == 0 -> inc == 0 -> snd (bump1 b f inc maxb maxf avail) == 0.
Proof.
  intros Hf Hi. destruct (bump1_feed_ceiling b f inc maxb maxf avail) as [_ U].
  destruct (bump1_never_lowers b f inc maxb maxf avail) as [_ L].
  destruct (Q.max_spec inc 0) as [[M1 M2]|[M1 M2]]; rewrite M2 in U; lra.
Qed.

(* the in-domain form (kept: used by the composition theorems of the rounds) *)
Lemma bump1_biofuel_ceiling b f inc maxb maxf avail :
  b <= maxb -> f <= maxf -> 0 <= inc ->
  fst (bump1 b f inc maxb maxf avail) <= maxb /\ fst (bump1 b f inc maxb maxf avail) <= b + inc.
Proof.
  intros Hb _ Hi. destruct (bump1_biofuel_ceiling_any b f inc maxb maxf avail) as [A B].
  rewrite (Q.max_r b maxb Hb) in A. rewrite (Q.max_l inc 0 Hi) in B. split; assumption.
Qed.

(* the defect repaired by the clamp fix: with feed already above its demand (negative potential feed increase)
   biofuel was pushed above its own demand, all inputs non-negative *)
Lemma bump1_before_clamp_fix_refuted :
  exists b f inc maxb maxf avail, 0 <= b /\ b <= maxb /\ 0 <= f /\ 0 <= inc /\ 0 <= avail /\ maxf < f /\
    maxb < fst (bump1_before_clamp_fix b f inc maxb maxf avail).
Proof. exists 9, 5, 1, 10, 2, 0. vm_compute. repeat split; discriminate || reflexivity. Qed.

(* the defect repaired by fix 5ea9ff8: without the np.minimum the regulariser leaks into feed *)
Lemma bump1_before_fix_refuted :
  exists b f inc maxb maxf avail, 0 <= b /\ b <= maxb /\ 0 <= f /\ f <= maxf /\ 0 <= inc /\
    maxf < snd (bump1_before_fix b f inc maxb maxf avail).
Proof. exists 0, 0, 10, 10, 10, 100. vm_compute. repeat split; discriminate || reflexivity. Qed.

(* series level *)
Lemma bump_nth b f inc maxb maxf avail m : (m < List.length b)%nat ->
  nth m (fst (bump b f inc maxb maxf avail)) 0 =
    fst (bump1 (nth m b 0) (nth m f 0) (nth m inc 0) (nth m maxb 0) (nth m maxf 0) (nth m avail 0)) /\
  nth m (snd (bump b f inc maxb maxf avail)) 0 =
    snd (bump1 (nth m b 0) (nth m f 0) (nth m inc 0) (nth m maxb 0) (nth m maxf 0) (nth m avail 0)).
Proof. intro H. unfold bump. simpl fst; simpl snd. rewrite !nth_tab by exact H. split; reflexivity. Qed.


(* ---------------- the validators called at the end of calculate_human_consumption_for_min_needs never fire *)
Lemma usage_ok_consume : forall fs rem prev, nonneg fs -> 0 <= rem -> (100 <= prev \/ rem == 0) ->
  usage_ok prev (consume_all rem fs) fs = true.
Proof.
  induction fs as [|f fs IH]; intros rem prev Hn Hr Hinv; simpl; [reflexivity|].
  inversion Hn as [|? ? Hf Hfs]; subst.
  set (c := pymin f rem).
  assert (Hc : 0 <= c /\ c <= f /\ c <= rem /\ (c = f \/ rem - c == 0)).
  { unfold c. destruct (pymin_spec f rem) as [[H ->]|[H ->]].
    - split; [lra|split; [lra|split; [lra|now left]]].
    - split; [lra|split; [lra|split; [lra|right; ring]]]. }
  destruct Hc as (C0 & C1 & C2 & C3).
  destruct (Qle_bool f eps4 || Qle_bool (100 * c / f) eps4) eqn:E.
  - apply IH; auto; [lra|]. destruct Hinv as [H|H]; [now left|right; lra].
  - apply orb_false_iff in E. destruct E as [E1 E2].
    assert (F1 : eps4 < f) by (destruct (Qle_bool_spec f eps4); [discriminate|lra]).
    assert (F2 : eps4 < 100 * c / f) by (destruct (Qle_bool_spec (100 * c / f) eps4); [discriminate|lra]).
    assert (Fp : 0 < f) by (unfold eps4 in F1; lra).
    assert (P100 : 100 * c / f <= 100) by (apply Qle_shift_div_r; [exact Fp|lra]).
    destruct (Qle_bool_spec (100 * c / f) (prev * (1 + eps4))) as [E3|E3].
    + apply IH; auto; [lra|]. destruct C3 as [->|C3]; [left|now right].
      assert (100 * f / f == 100) by (field; lra). lra.
    + exfalso. apply E3. destruct Hinv as [H|H].
      * unfold eps4. nra.
      * assert (100 * c / f <= 0) by (apply Qle_shift_div_r; [exact Fp|lra]). unfold eps4 in F2. lra.
Qed.

Lemma in_combine_map {A B} (g : A -> B) : forall l a b, In (a, b) (combine l (map g l)) -> b = g a.
Proof.
  induction l; simpl; intros x y H; [contradiction|].
  destruct H as [H|H]; [now inversion H|now apply IHl].
Qed.

Lemma validator_avail_eq r m : validator_avail r m = month_foods r m.
Proof. reflexivity. Qed.

Theorem min_needs_accepts K T pf Kc N r :
  r1_nonneg r -> (N <= min_len r)%nat -> 0 <= needs_cap K T pf -> needs_cap K T pf <= Kc * (1 + eps4) ->
  forall t, exists d, min_needs_gen t K T pf Kc N r = Ok d.
Proof.
  intros Hr Hlen Hc0 Hc1 t. unfold min_needs_gen.
  destruct (Nat.ltb_spec (min_len r) N) as [H|_]; [lia|].
  set (cap := needs_cap K T pf) in *.
  assert (W : within_limits cap (min_needs_rows cap r N) = true).
  { unfold within_limits, min_needs_rows. apply forallb_forall. intros row Hrow.
    apply in_map_iff in Hrow. destruct Hrow as (m & <- & _).
    apply forallb_forall. intros x Hx. destruct (In_nth _ _ 0 Hx) as (j & _ & <-).
    apply Qle_bool_iff.
    destruct (consume_bounds (month_foods r m) cap (month_foods_nonneg r m Hr) Hc0 j) as (_ & _ & B). exact B. }
  assert (S : sum_ok Kc (min_needs_rows cap r N) = true).
  { unfold sum_ok, min_needs_rows. apply forallb_forall. intros row Hrow.
    apply in_map_iff in Hrow. destruct Hrow as (m & <- & _). apply Qle_bool_iff.
    rewrite (consume_sum (month_foods r m) cap (month_foods_nonneg r m Hr) Hc0).
    pose proof (Q.le_min_l cap (qsum (month_foods r m))). lra. }
  assert (P : priorities_ok r (min_needs_rows cap r N) = true).
  { unfold priorities_ok. apply forallb_forall. intros [m row] Hin. simpl fst; simpl snd.
    assert (L : List.length (min_needs_rows cap r N) = N)
      by (unfold min_needs_rows; now rewrite map_length, seq_length).
    rewrite L in Hin. unfold min_needs_rows in Hin.
    apply in_combine_map in Hin. subst row. change (validator_avail r m) with (month_foods r m).
    apply usage_ok_consume; [apply month_foods_nonneg; exact Hr|exact Hc0|left; lra]. }
  rewrite W, S, P. rewrite orb_true_r. simpl. eexists. reflexivity.
Qed.
